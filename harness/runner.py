"""Common runner: tiers, seeds, sharding, evidence, replay files, known findings.

A property module (props/Cxx.py) defines
    PROPERTY  = 'Cxx'
    RULE      = text: how cases are generated and what makes one non-trivial
    ASSUMPTIONS = [...]
    def shards(tier): -> list of picklable shard descriptors
    def run_shard(desc, seed, tier): -> harness.runner.Stats
    def replay(case): -> None if the property holds on that saved case, else message
    MIN_NONTRIVIAL (optional): minimum distinct non-trivial cases, else exit 2
"""
import collections
import hashlib
import json
import multiprocessing
import os
import sys
import time
import traceback

VERIF = os.path.dirname(os.path.dirname(os.path.abspath(__file__)))
# VERIF_OUTDIR redirects what a run writes (used when checking scratch copies of hidc)
_OUT = os.environ.get('VERIF_OUTDIR') or VERIF
REPLAYS = os.path.join(_OUT, 'replays')
REGRESS = os.path.join(VERIF, 'regress')
EVIDENCE = os.path.join(_OUT, 'evidence')
KNOWN = os.path.join(VERIF, 'known_findings.json')

MAX_SAMPLES = 8


def case_hash(obj):
    return hashlib.blake2b(json.dumps(obj, sort_keys=True, default=repr).encode(), digest_size=8).hexdigest()


class Stats:
    """Per-shard (mergeable) record of what a check explored."""

    def __init__(self):
        self.evaluations = 0
        self.nontrivial = set()
        self.classes = collections.Counter()
        self.discarded = collections.Counter()
        self.samples = []
        self.violations = []      # list of replay-case dicts
        self.known_hits = collections.Counter()
        self.exhaustive = None
        self.extra = {}

    def evaluated(self, n=1):
        self.evaluations += n

    def nt(self, key):
        """Record a non-trivial case, identified by a hashable/json-able key."""
        self.nontrivial.add(key if isinstance(key, str) else case_hash(key))

    def cls(self, name, n=1):
        self.classes[name] += n

    def discard(self, why, n=1):
        self.discarded[why] += n

    def sample(self, obj):
        if len(self.samples) < MAX_SAMPLES:
            self.samples.append(obj)

    def violation(self, case):
        self.violations.append(case)

    def known(self, fid):
        self.known_hits[fid] += 1

    def merge(self, other):
        self.evaluations += other.evaluations
        self.nontrivial |= other.nontrivial
        self.classes.update(other.classes)
        self.discarded.update(other.discarded)
        for s in other.samples:
            if len(self.samples) < MAX_SAMPLES:
                self.samples.append(s)
        self.violations += other.violations
        self.known_hits.update(other.known_hits)
        if other.exhaustive is not None:
            self.exhaustive = other.exhaustive if self.exhaustive is None else (self.exhaustive and other.exhaustive)
        for k, v in other.extra.items():
            if isinstance(v, (int, float)) and isinstance(self.extra.get(k, 0), (int, float)):
                self.extra[k] = self.extra.get(k, 0) + v
            else:
                self.extra[k] = v


def load_known(prop):
    """-> (known: {id: entry}, fixed: [entries]) for this property."""
    try:
        data = json.load(open(KNOWN))
    except FileNotFoundError:
        return {}, []
    known = {e['id']: e for e in data.get('known', []) if e['property'] == prop or prop in e.get('also', [])}
    fixed = [e for e in data.get('fixed', []) if e.get('property') == prop]
    return known, fixed


def _bigframe(f):
    return f()


# CPython >= 3.11 keeps frames on a per-thread data stack made of 16 KiB chunks that are
# mmap'ed/munmap'ed every time the call depth crosses a chunk boundary.  hidc's coroutine
# parser oscillates across such a boundary constantly (40k mmap/munmap pairs per shard),
# and the resulting page faults serialise badly when 16 workers run.  Running the whole
# workload under one frame with a huge declared stack size makes CPython allocate a single
# large chunk that all nested frames then share.
_bigframe.__code__ = _bigframe.__code__.replace(co_stacksize=200000)


def _worker(args):
    modname, desc, seed, tier = args
    try:
        sys.setrecursionlimit(10000)
        mod = __import__('props.' + modname, fromlist=['x'])
        st = _bigframe(lambda: mod.run_shard(desc, seed, tier))
        return ('ok', st)
    except BaseException:
        return ('err', traceback.format_exc())


def write_replay(prop, case):
    os.makedirs(REPLAYS, exist_ok=True)
    case = dict(case)
    case['property'] = prop
    h = case_hash(case)
    path = os.path.join(REPLAYS, '%s-%s.json' % (prop, h))
    with open(path, 'w') as f:
        json.dump(case, f, indent=1, sort_keys=True, default=repr)
    return path


def regress_cases(prop):
    d = os.path.join(REGRESS, prop)
    if not os.path.isdir(d):
        return []
    out = []
    for name in sorted(os.listdir(d)):
        if name.endswith('.json'):
            out.append((os.path.join(d, name), json.load(open(os.path.join(d, name)))))
    return out


def main(mod, argv=None):
    argv = sys.argv[1:] if argv is None else argv
    prop = mod.PROPERTY
    tier = os.environ.get('VERIF_TIER', 'quick')
    replay_file = None
    i = 0
    while i < len(argv):
        if argv[i] == '--tier':
            tier = argv[i + 1]
            i += 2
        elif argv[i] == '--replay':
            replay_file = argv[i + 1]
            i += 2
        else:
            print('unknown argument', argv[i])
            return 2
    if tier not in ('quick', 'thorough'):
        tier = 'quick'
    try:
        seed = int(os.environ.get('VERIF_SEED', '1'))
    except ValueError:
        seed = 1
    t0 = time.time()
    try:
        if replay_file is not None:
            case = json.load(open(replay_file))
            msg = _bigframe(lambda: mod.replay(case))
            if msg:
                print('replay: property violated:', msg)
                print('VIOLATION property=%s replay=%s' % (prop, replay_file))
                return 1
            print('replay: property holds on', replay_file)
            return 0

        known, fixed = load_known(prop)
        total = Stats()
        # 1. regression tier: saved inputs first
        nreg = 0
        for path, case in regress_cases(prop):
            nreg += 1
            msg = _bigframe(lambda: mod.replay(case))
            if msg:
                fid = case.get('known_id')
                if fid and fid in known:
                    total.known(fid)
                else:
                    case = dict(case)
                    case['message'] = msg
                    case['from_regress'] = os.path.relpath(path, VERIF)
                    total.violation(case)
        total.extra['regress_cases_replayed'] = nreg

        # 2. generated search, sharded over processes
        descs = mod.shards(tier)
        jobs = [(mod.__name__.split('.')[-1], d, seed, tier) for d in descs]
        nproc = min(int(os.environ.get('VERIF_JOBS', '16')), max(1, len(jobs)))
        errors = []
        if nproc == 1 or os.environ.get('VERIF_INLINE'):
            results = [_worker(j) for j in jobs]
        else:
            ctx = multiprocessing.get_context('fork')
            with ctx.Pool(nproc, maxtasksperchild=1) as pool:
                results = pool.map(_worker, jobs, chunksize=1)
        for kind, val in results:
            if kind == 'ok':
                total.merge(val)
            else:
                errors.append(val)
        wall = time.time() - t0

        # 3. known findings: print, never suppress anything unlisted
        for fid, n in sorted(total.known_hits.items()):
            e = known.get(fid, {})
            print('KNOWN-FINDING: property=%s %s (%s; %d matching cases excluded)' % (
                prop, fid, e.get('what', ''), n))

        # 4. report
        viol_paths = []
        seen = set()
        for case in total.violations:
            p = write_replay(prop, case)
            if p not in seen:
                seen.add(p)
                viol_paths.append((p, case))

        coverage = {
            'evaluations': total.evaluations,
            'distinct_nontrivial': len(total.nontrivial),
            'rule': mod.RULE,
            'samples': total.samples,
            'classes': dict(sorted(total.classes.items())),
            'discarded': dict(sorted(total.discarded.items())),
            'known_findings_hit': dict(total.known_hits),
            'shards': len(descs),
        }
        coverage.update(total.extra)
        if total.exhaustive is not None:
            coverage['exhaustive'] = bool(total.exhaustive)
        ev = {
            'property_id': prop,
            'tier': tier,
            'seed': seed,
            'level': 'exploration',
            'coverage': coverage,
            'assumptions': list(getattr(mod, 'ASSUMPTIONS', [])),
            'wall_s': round(wall, 2),
            'violations': len(viol_paths),
        }
        os.makedirs(EVIDENCE, exist_ok=True)
        with open(os.path.join(EVIDENCE, prop + '.json'), 'w') as f:
            json.dump(ev, f, indent=1, default=repr)

        print('%s tier=%s seed=%d: %d evaluations, %d distinct non-trivial, %d violations, %.1fs' % (
            prop, tier, seed, total.evaluations, len(total.nontrivial), len(viol_paths), wall))
        top = ', '.join('%s=%d' % kv for kv in sorted(total.classes.items())[:40])
        if top:
            print('classes:', top)
        if total.discarded:
            print('discarded:', dict(total.discarded))
        if errors:
            print('HARNESS ERROR in %d shard(s):' % len(errors))
            print(errors[0])
            return 2
        if viol_paths:
            for p, case in viol_paths[:20]:
                print('violation:', str(case.get('message', ''))[:400].replace('\n', ' | '))
                print('VIOLATION property=%s replay=%s' % (prop, os.path.relpath(p, VERIF)))
            return 1
        need = getattr(mod, 'MIN_NONTRIVIAL', 2)
        if len(total.nontrivial) < max(2, need):
            print('HARNESS ERROR: too few non-trivial cases (%d < %d)' % (len(total.nontrivial), need))
            return 2
        return 0
    except SystemExit:
        raise
    except BaseException:
        traceback.print_exc()
        print('HARNESS ERROR (exit 2)')
        return 2
