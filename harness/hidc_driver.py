"""Thin driver around the hidc under test (imported from HIDC_REPO, default /repo)."""
import os
import sys

HIDC_REPO = os.environ.get('HIDC_REPO', '/repo')
if HIDC_REPO not in sys.path[:1]:
    sys.path.insert(0, HIDC_REPO)

import hidc  # noqa: E402
from hidc.lexer import SourceCode, lex  # noqa: E402
from hidc.parser import parse  # noqa: E402
from hidc.ast import Environment  # noqa: E402
from hidc.codegen import CodeGen  # noqa: E402
from hidc.errors import (CompilerError, LexerError, ParserError,  # noqa: E402
                         TypeCheckError, CodeGenError, InternalCompilerError)

import hidc.codegen.generator as _g  # noqa: E402
assert os.path.realpath(_g.__file__).startswith(os.path.realpath(HIDC_REPO) + os.sep), \
    'hidc imported from %s, expected %s' % (_g.__file__, HIDC_REPO)

import svm  # noqa: E402


def compile_source(source, word_size=2, stack_size=500, unchecked=False, **options):
    """-> list of assembly lines (bytes).  Raises CompilerError on rejection."""
    env = Environment.empty(**options)
    parse(SourceCode.from_string(source)).evaluate(env)
    cg = CodeGen(env, word_size=word_size, stack_size=stack_size, unchecked=unchecked)
    return list(cg.gen_lines())


def typecheck_source(source, **options):
    env = Environment.empty(**options)
    return parse(SourceCode.from_string(source)).evaluate(env), env


def run_source(source, args=(), word_size=2, stack_size=500, unchecked=False,
               budget=2_000_000, **options):
    lines = compile_source(source, word_size, stack_size, unchecked, **options)
    prog = svm.assemble(lines, args)
    return svm.VM(prog).run(budget)


def instr_lines(lines):
    """Emitted lines without comment lines (which carry spans) -- for C12/C18."""
    return [l for l in lines if not l.lstrip().startswith(b';')]
