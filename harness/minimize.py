"""Bounded statement-level minimisation of failing hast programs (quick tier).

still_fails(prog) -> bool must re-run the property's oracle and say whether
the *same* failure signature is still produced.  Candidates that do not
compile or change the signature are simply rejected.
"""
import copy

from hast import *  # noqa


def _blocks(x, out):
    if isinstance(x, Block):
        out.append(x)
    if isinstance(x, Node):
        for f in x.fields:
            _blocks(getattr(x, f), out)
    elif isinstance(x, list):
        for v in x:
            _blocks(v, out)


def minimize_program(prog, still_fails, max_evals=120):
    evals = [0]

    def ok(p):
        if evals[0] >= max_evals:
            return False
        evals[0] += 1
        try:
            return bool(still_fails(p))
        except Exception:
            return False

    cur = copy.deepcopy(prog)
    changed = True
    while changed and evals[0] < max_evals:
        changed = False
        # drop whole functions (never @is_you), then globals
        for i in range(len(cur.funcs) - 1, -1, -1):
            if cur.funcs[i].name == '@is_you':
                continue
            cand = copy.deepcopy(cur)
            del cand.funcs[i]
            if ok(cand):
                cur = cand
                changed = True
        for i in range(len(cur.globals) - 1, -1, -1):
            cand = copy.deepcopy(cur)
            del cand.globals[i]
            if ok(cand):
                cur = cand
                changed = True
        # drop statements, innermost blocks last; larger chunks first
        blocks = []
        _blocks(cur, blocks)
        for bi in range(len(blocks)):
            n = len(blocks[bi].stmts)
            chunk = max(1, n // 2)
            while chunk >= 1 and evals[0] < max_evals:
                i = len(blocks[bi].stmts) - chunk
                while i >= 0 and evals[0] < max_evals:
                    cand = copy.deepcopy(cur)
                    cb = []
                    _blocks(cand, cb)
                    del cb[bi].stmts[i:i + chunk]
                    if ok(cand):
                        cur = cand
                        blocks = []
                        _blocks(cur, blocks)
                        changed = True
                    i -= chunk
                chunk //= 2
        # replace if/loops/try by one of their bodies
        blocks = []
        _blocks(cur, blocks)
        for bi in range(len(blocks)):
            for si in range(len(blocks[bi].stmts) - 1, -1, -1):
                s = blocks[bi].stmts[si]
                subs = []
                if isinstance(s, If):
                    subs = [s.then] + ([s.els] if s.els is not None else [])
                elif isinstance(s, (While, For, Preempt)):
                    subs = [s.body]
                elif isinstance(s, Try):
                    subs = [s.body, s.handler]
                for sub in subs:
                    if evals[0] >= max_evals:
                        break
                    cand = copy.deepcopy(cur)
                    cb = []
                    _blocks(cand, cb)
                    cb[bi].stmts[si:si + 1] = copy.deepcopy(sub.stmts if isinstance(sub, Block) else [sub])
                    if ok(cand):
                        cur = cand
                        blocks = []
                        _blocks(cur, blocks)
                        changed = True
                        break
    return cur, evals[0]
