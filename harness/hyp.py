"""Hypothesis glue: seeded, database-less search that records the shrunk failure."""
import hypothesis
from hypothesis import HealthCheck, Phase, given, settings
from hypothesis import seed as hseed


class PropertyFailed(Exception):
    pass


class Discard(Exception):
    """Raised by a check for a case outside the property's domain (counted)."""

    def __init__(self, why):
        super().__init__(why)
        self.why = why


def derive_seed(seed, *parts):
    import hashlib
    h = hashlib.blake2b(repr((seed,) + parts).encode(), digest_size=8).digest()
    return int.from_bytes(h, 'little')


def search(strategy, check, *, seed, max_examples, stats, to_case, shrink=True, rounds=3, minimizer=None):
    """Run `check(value)` over generated values.

    check returns None (holds), or (signature, message) on a violation, or
    raises Discard.  Each distinct signature is shrunk and recorded once; the
    search then continues with that signature excluded (up to `rounds`).
    to_case(value, message) -> json-able replay case.
    """
    excluded = set()
    phases = [Phase.generate] + ([Phase.shrink] if shrink else [])
    for rnd in range(rounds):
        last = {}

        @hseed(derive_seed(seed, rnd))
        @settings(max_examples=max_examples, database=None, deadline=None,
                  derandomize=False, report_multiple_bugs=False,
                  suppress_health_check=list(HealthCheck), phases=phases,
                  print_blob=False, verbosity=hypothesis.Verbosity.quiet)
        @given(strategy)
        def t(value):
            try:
                r = check(value)
            except Discard as d:
                stats.discard(d.why)
                return
            except Exception as e:  # noqa
                # an exception raised inside the compiler under test is a finding (it must only raise
                # CompilerError, which the checks handle); anything raised by the harness itself propagates
                import os
                import traceback
                tb = traceback.extract_tb(e.__traceback__)
                repo = os.path.realpath(os.environ.get('HIDC_REPO', '/repo')) + os.sep
                if tb and os.path.realpath(tb[-1].filename).startswith(repo):
                    r = ('hidc-crash:%s:%s:%d' % (type(e).__name__, os.path.basename(tb[-1].filename), tb[-1].lineno),
                         'internal exception escapes the compiler: %s: %s at %s:%d\ninput: %r' % (
                             type(e).__name__, e, tb[-1].filename, tb[-1].lineno, value if isinstance(value, str) else '(structured case)'))
                else:
                    raise
            if r is None:
                return
            sig, msg = r
            if sig in excluded:
                stats.cls('excluded_repeat_of_found_violation')
                return
            last['value'] = value
            last['sig'] = sig
            last['msg'] = msg
            raise PropertyFailed(msg)

        try:
            t()
        except PropertyFailed:
            if minimizer is not None:
                try:
                    v2, m2 = minimizer(last['value'], last['sig'])
                    if v2 is not None:
                        last['value'], last['msg'] = v2, m2
                except Exception:
                    pass
            case = to_case(last['value'], last['msg'])
            case['signature'] = str(last['sig'])
            stats.violation(case)
            excluded.add(last['sig'])
            continue
        break
