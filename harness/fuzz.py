"""Driver for the atheris (libFuzzer) campaigns of the thorough tier (fuzz/target.py).

One campaign = one subprocess with a fresh corpus directory seeded from given texts, `-runs=N -seed=S`.
libFuzzer pins a campaign only approximately, so the saved failing input is the reproducible unit: every artifact
is re-judged here with the calling check's own oracle (`recheck(text)`) and only then becomes a violation.
If atheris cannot be imported or installed from the offline wheelhouse the campaign is skipped and counted
('atheris_unavailable'); that is never a violation.
"""
import fcntl
import json
import os
import re
import shutil
import subprocess
import sys
import tempfile

VERIF = os.path.dirname(os.path.dirname(os.path.abspath(__file__)))
DEPS = os.path.join(VERIF, '.deps')
TARGET = os.path.join(VERIF, 'fuzz', 'target.py')
WHEELS = '/opt/veriftools/wheels'


def ensure_atheris():
    def have():
        return subprocess.run([sys.executable, '-c', 'import sys; sys.path.append(%r); import atheris' % DEPS],
                              stdout=subprocess.DEVNULL, stderr=subprocess.DEVNULL).returncode == 0
    if have():
        return True
    os.makedirs(DEPS, exist_ok=True)
    with open(os.path.join(DEPS, '.lock'), 'w') as lk:
        fcntl.flock(lk, fcntl.LOCK_EX)
        if have():
            return True
        subprocess.run([sys.executable, '-m', 'pip', 'install', '--no-index', '--find-links', WHEELS, '--target', DEPS, 'atheris'],
                       stdout=subprocess.DEVNULL, stderr=subprocess.DEVNULL)
    return have()


def campaign(mode, seed, runs, corpus_texts, stats, recheck, max_len=300, timeout=7200):
    """Run one campaign; fold its coverage counters into `stats`; returns list of (signature, message, text) confirmed."""
    if not ensure_atheris():
        stats.cls('atheris_unavailable')
        return []
    work = tempfile.mkdtemp(prefix='hidfuzz_')
    found = []
    try:
        corp = os.path.join(work, 'corpus')
        os.makedirs(corp)
        for i, t in enumerate(corpus_texts):
            with open(os.path.join(corp, 'seed%03d' % i), 'wb') as f:
                f.write(t.encode('utf-8')[:max_len])
        statfile = os.path.join(work, 'stats.json')
        env = dict(os.environ, FUZZ_STATS=statfile, PYTHONHASHSEED='0')
        cmd = [sys.executable, TARGET, mode, corp, '-runs=%d' % runs, '-seed=%d' % (seed % (2 ** 31 - 1) + 1), '-max_len=%d' % max_len,
               '-artifact_prefix=%s/' % work, '-print_final_stats=1', '-timeout=60', '-rss_limit_mb=4096', '-verbosity=0']
        try:
            p = subprocess.run(cmd, env=env, cwd=work, stdout=subprocess.PIPE, stderr=subprocess.STDOUT, timeout=timeout)
            out = p.stdout.decode('utf-8', 'replace')
            rc = p.returncode
        except subprocess.TimeoutExpired as e:
            out = (e.stdout or b'').decode('utf-8', 'replace')
            rc = None
            stats.cls('atheris_budget_hit')
        m = re.search(r'stat::number_of_executed_units:\s*(\d+)', out)
        execs = int(m.group(1)) if m else 0
        stats.cls('atheris_campaigns')
        stats.cls('atheris_execs', execs)
        stats.cls('atheris_corpus_final', len(os.listdir(corp)))
        if os.path.exists(statfile):
            d = json.load(open(statfile))
            stats.evaluated(d['evaluations'])
            for k in d['nontrivial']:
                stats.nt(k)
            for k, v in d['classes'].items():
                stats.cls(k, v)
            for k, v in d['discarded'].items():
                stats.discard(k, v)
            for s in d['samples']:
                stats.sample(dict(s, via='atheris'))
        arts = [f for f in os.listdir(work) if f.startswith(('crash-', 'timeout-', 'oom-', 'leak-'))]
        for a in sorted(arts):
            data = open(os.path.join(work, a), 'rb').read()
            try:
                text = data.decode('utf-8')
            except UnicodeDecodeError:
                stats.cls('atheris_artifact_undecodable')
                continue
            r = recheck(text)
            if r:
                found.append((r[0], r[1], text))
            else:
                # not reproducible by the oracle (slow unit, libFuzzer's own limits): inconclusive, never a violation
                stats.cls('atheris_artifact_unconfirmed:' + a.split('-')[0])
        if rc not in (0, None) and not arts:
            tail = out[-1500:]
            raise RuntimeError('atheris target failed without an artifact (rc=%s):\n%s' % (rc, tail))
    finally:
        shutil.rmtree(work, ignore_errors=True)
    return found
