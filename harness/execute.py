"""Compile with the hidc under test and run on the verification VM."""
from . import hidc_driver as H
import svm

S0 = 400          # generous stack size (words) used by most checks
BUDGET_QUICK = 2_000_000


class Run:
    __slots__ = ('outcome', 'out', 'flags', 'events', 'res', 'lines', 'prog')

    def summary(self):
        return {'outcome': self.outcome, 'out': self.out.decode('latin-1'), 'flags': self.flags}

    @property
    def won(self):
        return self.outcome == svm.FOREVER and self.flags == ['win']

    @property
    def overflowed(self):
        return 'stack_overflow' in self.flags


def compile_lines(src, ws=2, S=S0, unchecked=False, **options):
    return H.compile_source(src, word_size=ws, stack_size=S, unchecked=unchecked, **options)


def run_lines(lines, args=(), budget=BUDGET_QUICK):
    try:
        prog = svm.assemble(lines, args)
    except svm.AsmError as e:
        # hidc's output is not well-formed assembly: never a harness error,
        # every differential check reports it as a mismatch
        r = Run()
        r.res = None
        r.prog = None
        r.lines = lines
        r.outcome = 'asm_error: %s' % e
        r.out = b''
        r.flags = []
        r.events = []
        return r
    res = svm.VM(prog).run(budget)
    r = Run()
    r.res = res
    r.prog = prog
    r.lines = lines
    r.outcome = res.outcome
    r.out = res.output
    r.flags = res.flags
    r.events = res.trimmed_events()
    return r


def execute(src, args=(), ws=2, S=S0, unchecked=False, budget=BUDGET_QUICK, **options):
    lines = compile_lines(src, ws, S, unchecked, **options)
    return run_lines(lines, args, budget)


def find_smin(src, args=(), ws=2, hi=S0, unchecked=False, budget=BUDGET_QUICK):
    """Smallest stack size (words) at which the run does not end in stack_overflow.

    Assumes monotonicity (checked separately by C18); returns None if the run
    overflows even at `hi`.
    """
    if execute(src, args, ws, hi, unchecked, budget).overflowed:
        return None
    lo = -1  # overflows (or cannot be compiled) at lo
    while hi - lo > 1:
        mid = (lo + hi) // 2
        if execute(src, args, ws, mid, unchecked, budget).overflowed:
            lo = mid
        else:
            hi = mid
    return hi
