"""Shared oracle for program-level properties: hidc+VM versus the reference interpreter."""
import hast
from hast.printer import to_source
from gen.programs import argv_strings
from ref.interp import run_reference
from ref.constfold import f4_hits
from . import hidc_driver as H
from .execute import run_lines, compile_lines, S0
from .hyp import Discard
import svm


class Verdict:
    __slots__ = ('status', 'msg', 'ref', 'run', 'src', 'sig')

    def __init__(self, status, msg='', ref=None, run=None, src=None, sig=None):
        self.status = status      # 'agree' | 'mismatch'
        self.msg = msg
        self.ref = ref
        self.run = run
        self.src = src
        self.sig = sig


def fmt_events(ev, limit=400):
    out = bytes(e[1] for e in ev if e[0] == 'out')
    rest = [e for e in ev if e[0] != 'out']
    s = '%r + %r' % (out, rest)
    return s if len(s) <= limit else s[:limit] + '...'


def first_diff(a, b):
    n = min(len(a), len(b))
    for i in range(n):
        if a[i] != b[i]:
            return i
    return n


def compile_case(prog, ws, S=S0, unchecked=False, src=None):
    """-> (src, lines).  Raises Discard for documented rejections, returns lines=None
    plus the exception for any other rejection (the caller decides)."""
    if src is None:
        src = to_source(prog)
    try:
        return src, compile_lines(src, ws, S, unchecked), None
    except H.CompilerError as e:
        return src, None, e


def reference_for(prog, vals, ws, checked=True, budget=150_000, stack_words=S0):
    return run_reference(prog, vals, ws, checked=checked, budget=budget, stack_words=stack_words)


def expected_vm_outcome(ref):
    # win loop, error loop and `while(true){}` are all state cycles
    return svm.FOREVER


def compare(ref, run):
    """-> None if the VM run matches the reference outcome, else message."""
    if run.outcome != svm.FOREVER:
        return 'VM outcome %s (expected a non-halting end state); events %s' % (run.outcome, fmt_events(run.events))
    exp = list(ref.events)
    got = list(run.events)
    if ref.kind == 'forever':
        # source program diverges silently after its last event
        pass
    if exp != got:
        i = first_diff(exp, got)
        return 'events differ at #%d: expected %s, got %s  (expected tail %r, got tail %r)' % (
            i, fmt_events(exp), fmt_events(got), exp[i:i + 6], got[i:i + 6])
    return None


def check_program(prog, vals, ws, *, S=S0, unchecked=False, stats=None, exclude_f4=True, vm_budget=1_500_000,
                  ref_budget=150_000):
    """Differential check of one program at one configuration.

    Raises Discard for cases outside the property's domain.  Returns Verdict.
    """
    hits = f4_hits(prog, ws)
    if exclude_f4 and any(h != 'div0' for h in hits):
        if stats is not None:
            stats.known('F4')
        raise Discard('known F4: out-of-range constant folded at compile time')
    ref = reference_for(prog, vals, ws, checked=not unchecked, budget=ref_budget, stack_words=S0)
    if ref.kind == 'budget':
        raise Discard('reference budget')
    if ref.kind.startswith('undefined'):
        raise Discard('undefined: ' + ref.kind.split(':', 1)[1][:40])
    if ref.kind == 'halt':
        raise Discard('reference: real defeat (ill-formed program)')
    src, lines, err = compile_case(prog, ws, S, unchecked)
    if lines is None:
        if 'div0' in hits and ('ivision by zero' in str(err) or 'odulus of zero' in str(err)):
            raise Discard('constant division by zero rejected at compile time')
        return Verdict('mismatch', 'well-typed program rejected: %s: %s' % (type(err).__name__, err), ref, None, src,
                       sig='rejected:' + type(err).__name__)
    run = run_lines(lines, argv_strings(vals), budget=vm_budget)
    if run.outcome == svm.BUDGET:
        raise Discard('vm budget')
    m = compare(ref, run)
    if m is None:
        return Verdict('agree', '', ref, run, src)
    sig = 'mismatch:%s->%s' % (ref.kind, ','.join(run.flags[-2:]) or run.outcome)
    return Verdict('mismatch', m, ref, run, src, sig=sig)


def case_json(prog, vals, ws, **cfg):
    d = {'prog': hast.to_json(prog), 'vals': hast.to_json(vals), 'ws': ws, 'source': to_source(prog)}
    d.update(cfg)
    return d


def case_from_json(d):
    return hast.from_json(d['prog']), hast.from_json(d['vals']), d['ws']


def program_minimizer(check, get_case, with_prog, max_evals=120):
    """Minimizer for hyp.search over values that contain a (prog, vals, ws) case.

    check(value) -> None | (sig, msg); get_case(value) -> (prog, vals, ws);
    with_prog(value, prog) -> value with the program replaced.
    """
    from .minimize import minimize_program

    def minimizer(value, sig):
        prog, vals, ws = get_case(value)
        best = {'msg': None}

        def still(p):
            try:
                r = check(with_prog(value, p))
            except Discard:
                return False
            if r is not None and r[0] == sig:
                best['msg'] = r[1]
                return True
            return False

        p2, n = minimize_program(prog, still, max_evals)
        if best['msg'] is None:
            return None, None
        return with_prog(value, p2), best['msg']

    return minimizer


def check_source_program(src, vals, ws, *, S=S0, unchecked=False, vm_budget=1_500_000, ref_budget=150_000, ref_stack=S0):
    """Differential check for a program given as source text: the reference side goes through the
    independent parser and typechecker (ref/parse.py, ref/types.py).  -> Verdict (ref, run filled in)."""
    from ref.parse import parse_program
    from ref.types import check_program
    prog = parse_program(src)
    check_program(prog)
    ref = reference_for(prog, vals, ws, checked=not unchecked, budget=ref_budget, stack_words=ref_stack)
    if ref.kind == 'budget':
        raise Discard('reference budget')
    if ref.kind.startswith('undefined'):
        raise Discard('undefined: ' + ref.kind.split(':', 1)[1][:40])
    try:
        lines = compile_lines(src, ws, S, unchecked)
    except H.CompilerError as e:
        return Verdict('mismatch', 'program rejected: %s: %s' % (type(e).__name__, e), ref, None, src, sig='rejected')
    run = run_lines(lines, argv_strings(vals), budget=vm_budget)
    if run.outcome == svm.BUDGET:
        raise Discard('vm budget')
    m = compare(ref, run)
    if m is None:
        return Verdict('agree', '', ref, run, src)
    return Verdict('mismatch', m, ref, run, src, sig='mismatch:%s->%s' % (ref.kind, ','.join(run.flags[-2:]) or run.outcome))
