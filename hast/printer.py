"""Render hast to HiD source.

Expression parenthesisation modes:
  'full' : every compound sub-expression parenthesised (robust default),
  'min'  : only where the README precedence table requires it (C11).
Layout hook: sep(i) -> whitespace/comment run placed between tokens (C12);
the default uses single spaces/newlines.
"""
from . import *  # noqa

# precedence levels, higher binds tighter (README "Operators")
PREC = {
    '??': 1, 'or': 2, 'and': 3,
    '==': 4, '!=': 4, '<': 4, '<=': 4, '>': 4, '>=': 4,
    '+': 5, '-': 5, '*': 6, '/': 6, '%': 6,
}
P_IS = 7
P_UNARY = 8
P_POSTFIX = 9
P_ATOM = 10

ESC = {7: '\\a', 8: '\\b', 12: '\\f', 10: '\\n', 13: '\\r', 9: '\\t', 0: '\\0', 92: '\\\\'}


def string_src(data):
    out = ['"']
    for b in data:
        if b == 0x22:
            out.append('\\"')
        elif b in ESC:
            out.append(ESC[b])
        elif 0x20 <= b <= 0x7e:
            out.append(chr(b))
        else:
            out.append('\\x%02x' % b)
    out.append('"')
    return ''.join(out)


def char_src(b):
    if b == 0x27:
        return "'\\''"
    if b in ESC:
        return "'" + ESC[b] + "'"
    if 0x20 <= b <= 0x7e:
        return "'" + chr(b) + "'"
    return "'\\x%02x'" % b


def lit_src(e):
    if e.text is not None:
        return e.text
    if e.kind == 'int':
        return str(e.value)
    if e.kind == 'char':
        return char_src(e.value)
    if e.kind == 'bool':
        return 'true' if e.value else 'false'
    if e.kind == 'string':
        return string_src(e.value)
    raise ValueError(e.kind)


def prec_of(e):
    if isinstance(e, Bin):
        return PREC[e.op]
    if isinstance(e, Spec):
        return 1
    if isinstance(e, Is):
        return P_IS
    if isinstance(e, Un):
        return P_UNARY
    if isinstance(e, (Index, Len)):
        return P_POSTFIX
    if isinstance(e, Lit) and e.kind == 'int' and e.text is None and e.value < 0:
        return P_UNARY      # printed as -N
    return P_ATOM


_OMIT = {'k': None, 'count': 0}


def expr_tokens(e, mode='full', omit=None):
    """-> list of token strings.  omit=k leaves out the k-th parenthesis pair that
    `mode` considers necessary (C11: removing a necessary pair must change the tree)."""
    out = []
    _OMIT['k'] = omit
    _OMIT['count'] = 0
    try:
        _expr(e, out, mode)
    finally:
        _OMIT['k'] = None
    return out


def count_needed_parens(e, mode='min'):
    expr_tokens(e, mode, omit=-1)
    return _OMIT['count']


def _wrap(e, out, mode, need):
    if need and _OMIT['k'] is not None:
        k = _OMIT['count']
        _OMIT['count'] += 1
        if k == _OMIT['k']:
            need = False
    if need:
        out.append('(')
        _expr(e, out, mode)
        out.append(')')
    else:
        _expr(e, out, mode)


def _compound(e):
    return not (isinstance(e, (Lit, Var, Call, ArrLit, Paren)) and prec_of(e) == P_ATOM)


def _expr(e, out, mode):
    full = mode == 'full'
    if isinstance(e, Lit):
        if e.kind == 'int' and e.text is None and e.value < 0:
            out.append('-')
            out.append(str(-e.value))
        else:
            out.append(lit_src(e))
    elif isinstance(e, Var):
        out.append(e.name)
    elif isinstance(e, Paren):
        out.append('(')
        _expr(e.e, out, mode)
        out.append(')')
    elif isinstance(e, Un):
        out.append(e.op)
        # operand of a unary: unary-level or tighter
        _wrap(e.e, out, mode, (full and _compound(e.e)) or prec_of(e.e) < P_UNARY)
    elif isinstance(e, Is):
        # grammar: expr3 := expr2 ['is' type]  -- the operand is unary-level, and `is` does not chain
        _wrap(e.e, out, mode, (full and _compound(e.e)) or prec_of(e.e) < P_UNARY)
        out.append('is')
        out.extend(type_tokens(e.ty, in_cast=True))
    elif isinstance(e, Bin):
        p = PREC[e.op]
        _wrap(e.l, out, mode, (full and _compound(e.l)) or prec_of(e.l) < p)
        out.append(e.op)
        _wrap(e.r, out, mode, (full and _compound(e.r)) or prec_of(e.r) <= p)
    elif isinstance(e, Spec):
        # operands are `or`-level; ?? does not chain
        _wrap(e.l, out, mode, (full and _compound(e.l)) or prec_of(e.l) < 2)
        out.append('??')
        _wrap(e.r, out, mode, (full and _compound(e.r)) or prec_of(e.r) < 2)
    elif isinstance(e, Index):
        _wrap(e.src, out, mode, prec_of(e.src) < P_POSTFIX)
        out.append('[')
        _expr(e.idx, out, mode)
        out.append(']')
    elif isinstance(e, Len):
        _wrap(e.src, out, mode, prec_of(e.src) < P_POSTFIX)
        out.append('.')
        out.append('length')
    elif isinstance(e, Call):
        out.append(e.name)
        out.append('(')
        for i, a in enumerate(e.args):
            if i:
                out.append(',')
            _expr(a, out, mode)
        out.append(')')
    elif isinstance(e, ArrLit):
        out.append('[')
        for i, a in enumerate(e.elems):
            if i:
                out.append(',')
            _expr(a, out, mode)
        out.append(']')
    else:
        raise TypeError('not an expression: %r' % (e,))


def type_tokens(t, in_cast=False):
    if is_arr(t):
        toks = [t[1], '[', ']']
        if t[2] and not in_cast:
            toks = ['const'] + toks
        return toks
    return [t]


NL = '\n'


class Printer:
    def __init__(self, mode='full'):
        self.mode = mode
        self.toks = []          # (token, hint) hint: 'nl' newline wanted after, ''

    def emit(self, *toks):
        for t in toks:
            self.toks.append(t)

    def expr(self, e):
        self.toks.extend(expr_tokens(e, self.mode))

    def decl_head(self, ty, const, name):
        if is_arr(ty):
            self.emit(*type_tokens(ty))
        else:
            if const:
                self.emit('const')
            self.emit(ty)
        self.emit(name)

    def simple_stmt(self, s):
        """Statement without trailing ';'."""
        if isinstance(s, Decl):
            self.decl_head(s.ty, s.const, s.name)
            self.emit('=')
            self.expr(s.init)
        elif isinstance(s, ArrDecl):
            self.emit(s.el, s.name, '[')
            self.expr(s.length)
            self.emit(']')
        elif isinstance(s, Assign):
            self.expr(s.target)
            self.emit('=')
            self.expr(s.e)
        elif isinstance(s, AugAssign):
            self.expr(s.target)
            self.emit(s.op + '=')
            self.expr(s.e)
        elif isinstance(s, ExprStmt):
            self.expr(s.e)
        elif isinstance(s, Return):
            self.emit('return')
            if s.e is not None:
                self.expr(s.e)
        elif isinstance(s, Break):
            self.emit('break')
        elif isinstance(s, Continue):
            self.emit('continue')
        else:
            raise TypeError('not a simple statement: %r' % (s,))

    def block(self, b):
        self.emit('{', NL)
        for s in b.stmts:
            self.stmt(s)
        self.emit('}', NL)

    def stmt(self, s):
        if isinstance(s, Block):
            self.block(s)
        elif isinstance(s, If):
            self.emit('if', '(')
            self.expr(s.cond)
            self.emit(')')
            self.stmt(s.then)
            if s.els is not None:
                self.emit('else')
                self.stmt(s.els)
        elif isinstance(s, While):
            self.emit('while', '(')
            self.expr(s.cond)
            self.emit(')')
            self.stmt(s.body)
        elif isinstance(s, For):
            self.emit('for', '(')
            if s.init is not None:
                self.simple_stmt(s.init)
            self.emit(';')
            if s.cond is not None:
                self.expr(s.cond)
            self.emit(';')
            if s.step is not None:
                self.simple_stmt(s.step)
            self.emit(')')
            self.stmt(s.body)
        elif isinstance(s, Try):
            self.emit('try')
            self.stmt(s.body)
            self.emit(s.kind)
            self.stmt(s.handler)
        elif isinstance(s, Preempt):
            self.emit('preempt')
            self.stmt(s.body)
        else:
            self.simple_stmt(s)
            self.emit(';', NL)

    def func(self, f):
        self.emit(f.ret, f.name, '(')
        for i, p in enumerate(f.params):
            if i:
                self.emit(',')
            self.decl_head(p.ty, p.const, p.name)
        self.emit(')')
        self.block(f.body)

    def program(self, p):
        for g in p.globals:
            self.simple_stmt(g)
            self.emit(';', NL)
        for f in p.funcs:
            self.func(f)
        return self.toks


def tokens_of(x, mode='full'):
    pr = Printer(mode)
    if isinstance(x, Program):
        pr.program(x)
    elif isinstance(x, Func):
        pr.func(x)
    elif isinstance(x, (Lit, Var, Un, Bin, Is, Spec, Index, Len, Call, ArrLit, Paren)):
        pr.expr(x)
    else:
        pr.stmt(x)
    return pr.toks


def join_tokens(toks):
    """Default layout: single spaces, newlines where the printer asked."""
    out = []
    indent = 0
    bol = True
    for t in toks:
        if t == NL:
            out.append('\n')
            bol = True
            continue
        if t == '}':
            indent = max(0, indent - 1)
        if bol:
            out.append('    ' * indent)
        else:
            out.append(' ')
        out.append(t)
        bol = False
        if t == '{':
            indent += 1
    return ''.join(out)


def to_source(x, mode='full'):
    return join_tokens(tokens_of(x, mode))
