"""hast: own AST for Halt-is-Defeat programs (independent of hidc.ast).

Types are strings 'int' 'byte' 'bool' 'string' 'empty' or tuples
('arr', el, const).  Every expression node carries .t, its static type as
the generator built it (the reference interpreter needs no inference).
Nodes serialise to nested lists (to_json / from_json) for replay files.
"""

INT, BYTE, BOOL, STRING, EMPTY = 'int', 'byte', 'bool', 'string', 'empty'
SCALARS = (INT, BYTE, BOOL, STRING)


def arr(el, const=False):
    return ('arr', el, bool(const))


def is_arr(t):
    return isinstance(t, tuple) and t[0] == 'arr'


def type_src(t, with_const=True):
    if is_arr(t):
        return ('const ' if t[2] and with_const else '') + t[1] + '[]'
    return t


_REGISTRY = {}


class Node:
    __slots__ = ()
    fields = ()

    def __init__(self, *args, **kw):
        if len(args) > len(self.fields):
            raise TypeError('%s takes %d fields' % (type(self).__name__, len(self.fields)))
        for f, a in zip(self.fields, args):
            setattr(self, f, a)
        for f in self.fields[len(args):]:
            setattr(self, f, kw.pop(f, None))
        self.t = kw.pop('t', None)
        if kw:
            raise TypeError('unknown fields %r' % kw)

    def __repr__(self):
        return '%s(%s)' % (type(self).__name__, ', '.join(repr(getattr(self, f)) for f in self.fields))

    def __eq__(self, other):
        return type(self) is type(other) and all(getattr(self, f) == getattr(other, f) for f in self.fields)

    def __hash__(self):
        return hash((type(self).__name__,) + tuple(_h(getattr(self, f)) for f in self.fields))


def _h(v):
    if isinstance(v, list):
        return tuple(_h(x) for x in v)
    return v


def node(name, fields):
    cls = type(name, (Node,), {'__slots__': tuple(fields.split()) + ('t',), 'fields': tuple(fields.split())})
    _REGISTRY[name] = cls
    return cls


# expressions
Lit = node('Lit', 'kind value text')        # kind: int|char|bool|string ; text: source spelling or None
Var = node('Var', 'name')
Un = node('Un', 'op e')                     # op: + - not
Bin = node('Bin', 'op l r')                 # arithmetic, comparison, equality, and, or
Is = node('Is', 'e ty')
Spec = node('Spec', 'l r')                  # l ?? r
Index = node('Index', 'src idx')
Len = node('Len', 'src')
Call = node('Call', 'name args')
ArrLit = node('ArrLit', 'elems')
Paren = node('Paren', 'e')                  # explicit redundant parentheses (printer only)

# statements
Decl = node('Decl', 'ty const name init')   # ty may be array type; const for scalars (arrays carry it in ty)
ArrDecl = node('ArrDecl', 'el name length')  # el name[length];
Assign = node('Assign', 'target e')
AugAssign = node('AugAssign', 'target op e')
ExprStmt = node('ExprStmt', 'e')
Return = node('Return', 'e')
Break = node('Break', '')
Continue = node('Continue', '')
If = node('If', 'cond then els')
While = node('While', 'cond body')
For = node('For', 'init cond step body')
Try = node('Try', 'body kind handler')      # kind: undo|stop
Preempt = node('Preempt', 'body')
Block = node('Block', 'stmts')

Param = node('Param', 'ty const name')
Func = node('Func', 'ret name params body')
Program = node('Program', 'globals funcs')


def to_json(x):
    if isinstance(x, Node):
        d = [type(x).__name__] + [to_json(getattr(x, f)) for f in x.fields]
        if x.t is not None:
            d.append({'t': to_json(x.t)})
        return d
    if isinstance(x, (list, tuple)):
        return {'L' if isinstance(x, list) else 'T': [to_json(v) for v in x]}
    if isinstance(x, bytes):
        return {'B': x.hex()}
    return x


def from_json(d):
    if isinstance(d, list):
        cls = _REGISTRY[d[0]]
        rest = d[1:]
        t = None
        if len(rest) == len(cls.fields) + 1:
            t = from_json(rest[-1]['t'])
            rest = rest[:-1]
        n = cls(*[from_json(v) for v in rest])
        n.t = t
        return n
    if isinstance(d, dict):
        if 'L' in d:
            return [from_json(v) for v in d['L']]
        if 'T' in d:
            return tuple(from_json(v) for v in d['T'])
        if 'B' in d:
            return bytes.fromhex(d['B'])
    return d


def walk(x):
    """Yield every node in the tree (pre-order)."""
    if isinstance(x, Node):
        yield x
        for f in x.fields:
            yield from walk(getattr(x, f))
    elif isinstance(x, (list, tuple)):
        for v in x:
            yield from walk(v)
