"""spasm API shim over the verification VM: just enough for the upstream
tests/test_codegen.py (used only by selftest, never installed)."""
import os
import sys

sys.path.insert(0, os.path.dirname(os.path.dirname(os.path.dirname(os.path.dirname(os.path.abspath(__file__))))))
import svm


class Emulator:
    def __init__(self, prog, ctx):
        self.ctx = ctx
        self.prog = prog
        self.queue = None
        self.outcome = None

    def step(self):
        if self.queue is None:
            res = svm.run_lines(*self.prog)
            self.outcome = res.outcome
            self.queue = list(res.events)
        while self.queue:
            e = self.queue.pop(0)
            if e[0] == 'out':
                self.ctx.output(bytes([e[1]]))
            elif e[0] == 'sleep':
                self.ctx.sleep(e[1])
            else:
                self.ctx.on_flag(None, e[1])
                return True
        return self.outcome != svm.HALT
