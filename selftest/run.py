#!/venv/bin/python
"""Validation of the oracles themselves (DESIGN.md 2.6). Exit 0 iff all pass."""
import os
import subprocess
import sys

HERE = os.path.dirname(os.path.abspath(__file__))
VERIF = os.path.dirname(HERE)
sys.path.insert(0, VERIF)
REPO = os.environ.get('HIDC_REPO', '/repo')


def step_codegen_tests():
    """Upstream tests/test_codegen.py (52 tests) against the VM via the shim."""
    env = dict(os.environ, PYTHONPATH=os.path.join(HERE, 'spasm_shim') + os.pathsep + REPO)
    r = subprocess.run([sys.executable, '-m', 'pytest', '-q', '-p', 'no:cacheprovider', 'tests/test_codegen.py'],
                       cwd=REPO, env=env, capture_output=True, text=True)
    tail = r.stdout.strip().splitlines()[-1] if r.stdout.strip() else r.stderr[-300:]
    print('selftest 1 (upstream codegen tests on svm):', tail)
    return r.returncode == 0


def main():
    ok = True
    for step in STEPS:
        try:
            good = step()
        except Exception as e:  # noqa
            import traceback
            traceback.print_exc()
            good = False
        ok = ok and good
    print('selftest:', 'OK' if ok else 'FAILED')
    return 0 if ok else 1


STEPS = [step_codegen_tests]

if __name__ == '__main__':
    sys.exit(main())
