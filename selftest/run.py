#!/venv/bin/python
"""Validation of the oracles themselves (DESIGN.md 2.6). Exit 0 iff all pass."""
import os
import subprocess
import sys

HERE = os.path.dirname(os.path.abspath(__file__))
VERIF = os.path.dirname(HERE)
sys.path.insert(0, VERIF)
REPO = os.environ.get('HIDC_REPO', '/repo')


def step_codegen_tests():
    """1. Upstream tests/test_codegen.py (52 tests) against the VM via the spasm shim."""
    env = dict(os.environ, PYTHONPATH=os.path.join(HERE, 'spasm_shim') + os.pathsep + REPO)
    r = subprocess.run([sys.executable, '-m', 'pytest', '-q', '-p', 'no:cacheprovider', 'tests/test_codegen.py'],
                       cwd=REPO, env=env, capture_output=True, text=True)
    tail = r.stdout.strip().splitlines()[-1] if r.stdout.strip() else r.stderr[-300:]
    print('selftest 1 (upstream codegen tests on svm):', tail)
    return r.returncode == 0


README_CASES = [
    ('hello', 'examples/hello.hid', [], b'Hello world!\nSome numbers: 1 2 3 4 5 6 7 8 9 10\n', ['win']),
    ('stop', 'empty @is_you() { try { writeln("> try block"); !is_defeat(); } stop { writeln("> stop block"); } }', [],
     b'> try block\n> stop block\n', ['win']),
    ('undo', 'empty @is_you() { try { writeln("> try block"); !is_defeat(); } undo { writeln("> undo block"); } }', [],
     b'> undo block\n', ['win']),
    ('halting', 'empty @is_you() { try { writeln("The loop runs forever"); while (true) {} !is_defeat(); } undo { writeln("The loop terminates"); } }',
     [], b'The loop runs forever\n', []),
    ('max', 'examples/max.hid', [[3, 9, 2, 9, 4]], b'Max value: 9\n', ['win']),
    ('nonlocal', 'empty !baba() { if (false) { preempt {} } } empty @is_you() { try { !baba(); !is_defeat(); } undo {} }', [],
     b'', ['nonlocal_preempt', 'error']),
    ('mergesort', 'examples/mergesort.hid', [[5, 3, 9, 1, 7, 2, 8]], b'Sorted: [1, 2, 3, 5, 7, 8, 9]\n', ['progress', 'win']),
    ('optional_max', 'examples/optional_max.hid', [[4, 8, 1]], b'Max value: 8\n', ['win']),
]


def step_readme_examples():
    """2. Documented outputs of the README / example programs on the VM and on the reference interpreter."""
    from harness.execute import execute
    from gen.programs import argv_strings
    from ref.parse import parse_program
    from ref.types import check_program
    from ref.interp import run_reference
    ok = True
    for name, src, vals, out, flags in README_CASES:
        if src.startswith('examples/'):
            src = open(os.path.join(REPO, src)).read()
        r = execute(src, argv_strings(vals), budget=5_000_000)
        prog = parse_program(src)
        check_program(prog)
        o = run_reference(prog, vals, 2, budget=3_000_000, max_flips=200000)
        good = r.out == out and r.flags == flags and r.outcome == 'forever' and o.output == out and o.flags == flags
        if not good:
            print('  README case %s: VM %r %r %s; reference %r %r %s; documented %r %r' % (name, r.out, r.flags, r.outcome, o.output, o.flags, o.kind, out, flags))
        ok = ok and good
    print('selftest 2 (README outputs on VM and reference, %d programs):' % len(README_CASES), 'ok' if ok else 'FAILED')
    return ok


def naive_run(prog, budget=3000):
    """The definition, by plain recursion: at `j X` jump iff not jumping leads to halt; a state that reaches
    itself again on the current path does not halt."""
    import svm
    code = prog.code
    ws = prog.ws
    mask = (1 << 8 * ws) - 1
    steps = [0]

    class Out(Exception):
        pass

    def val(o, mem):
        k, v = o
        if k == 'i':
            return v
        return int.from_bytes(mem[v:v + ws], 'little')

    def step(pc, mem, events, onpath=frozenset()):
        """-> ('halt',) | ('next', pc, mem) ; events appended when not None"""
        steps[0] += 1
        if steps[0] > budget:
            raise Out()
        if not (0 <= pc < len(code)):
            return ('halt',)
        op, a = code[pc]
        if op == 'halt':
            return ('halt',)
        if op == 'j':
            target = val(a[0], mem)
            if halts(pc + 1, mem, onpath):
                return ('next', target, mem)
            return ('next', pc + 1, mem)
        if op in ('heq', 'hne', 'hlt', 'hge'):
            x, y = val(a[0], mem), val(a[1], mem)
            sx = x - (mask + 1) if x >> (8 * ws - 1) else x
            sy = y - (mask + 1) if y >> (8 * ws - 1) else y
            h = {'heq': x == y, 'hne': x != y, 'hlt': sx < sy, 'hge': sx >= sy}[op]
            return ('halt',) if h else ('next', pc + 1, mem)
        if op == 'yield':
            if events is not None:
                events.append(('out', val(a[0], mem) & 0xFF))
            return ('next', pc + 1, mem)
        if op == 'flag':
            if events is not None:
                events.append(('flag', a[0][1]))
            return ('next', pc + 1, mem)
        d = a[0][1]
        y = val(a[1], mem)
        if op == 'mov':
            r = y
        else:
            z = val(a[2], mem)
            r = {'add': y + z, 'sub': y - z, 'and': y & z, 'xor': y ^ z}[op]
        m2 = bytearray(mem)
        m2[d:d + ws] = (r & mask).to_bytes(ws, 'little')
        return ('next', pc + 1, bytes(m2))

    def halts(pc, mem, onpath):
        while True:
            key = (pc, mem)
            if key in onpath:
                return False
            onpath = onpath | {key}
            r = step(pc, mem, None, onpath)
            if r[0] == 'halt':
                return True
            _, pc, mem = r

    events = []
    seen = set()
    pc, mem = 0, bytes(prog.state)
    try:
        while True:
            key = (pc, mem)
            if key in seen:
                return 'forever', events
            seen.add(key)
            r = step(pc, mem, events, frozenset(seen))
            if r[0] == 'halt':
                return 'halt', events
            _, pc, mem = r
    except Out:
        return 'budget', events


def step_vm_vs_naive():
    """3. The VM's backtracking implementation of the Turing jump against the naive recursive definition."""
    import hypothesis
    from hypothesis import given, settings, strategies as st, HealthCheck
    import svm
    regs = ['a', 'b', 'c']
    operand = st.one_of(st.integers(0, 3).map(str), st.sampled_from(regs).map(lambda r: '[%s]' % r))

    @st.composite
    def program(draw):
        n = draw(st.integers(2, 12))
        lines = ['%format word 1', '%section state'] + ['%s: .word %d' % (r, draw(st.integers(0, 3))) for r in regs] + ['%section code']
        for i in range(n):
            k = draw(st.integers(0, 9))
            lab = 'L%d: ' % i
            if k <= 1:
                ins = 'j L%d' % draw(st.integers(0, n - 1))
            elif k == 2:
                ins = 'halt'
            elif k == 3:
                ins = '%s %s, %s' % (draw(st.sampled_from(['heq', 'hne', 'hlt', 'hge'])), draw(operand), draw(operand))
            elif k == 4:
                ins = 'yield %s' % draw(operand)
            elif k == 5:
                ins = 'flag f%d' % draw(st.integers(0, 2))
            elif k == 6:
                ins = 'mov [%s], %s' % (draw(st.sampled_from(regs)), draw(operand))
            else:
                ins = '%s [%s], %s, %s' % (draw(st.sampled_from(['add', 'sub', 'and', 'xor'])), draw(st.sampled_from(regs)), draw(operand), draw(operand))
            lines.append(lab + ins)
        return lines

    count = [0, 0]

    @hypothesis.seed(20260922)
    @settings(max_examples=4000, database=None, deadline=None, suppress_health_check=list(HealthCheck))
    @given(program())
    def t(lines):
        prog = svm.assemble(lines)
        res = svm.VM(prog).run(budget=200000)
        kind, ev = naive_run(prog)
        if kind == 'budget' or res.outcome == svm.BUDGET:
            return
        count[0] += 1
        assert res.outcome == kind, (lines, res.outcome, kind)
        if kind == 'halt':
            assert res.events == ev, (lines, res.events, ev)
        else:
            count[1] += 1
            n = min(len(res.events), len(ev))
            assert res.events[:n] == ev[:n], (lines, res.events, ev)

    try:
        t()
    except AssertionError as e:
        print('selftest 3 (VM vs naive jump semantics): MISMATCH', str(e)[:800])
        return False
    print('selftest 3 (VM vs naive jump semantics): %d tiny programs agree (%d non-halting)' % (count[0], count[1]))
    return count[0] > 500


def step_printer_parser_loop():
    """4. printer / reference lexer / reference parsers closed loop on generated expressions and programs."""
    import hypothesis
    from hypothesis import given, settings, HealthCheck
    import hast
    from hast.printer import expr_tokens, to_source
    from props.C11 import rand_tree, canon, nested_spec
    from ref import expr as RE
    from ref.parse import parse_program
    from gen.programs import programs, ALL_FEATURES
    n = [0, 0]

    @hypothesis.seed(7)
    @settings(max_examples=1500, database=None, deadline=None, suppress_health_check=list(HealthCheck))
    @given(rand_tree(6))
    def t1(e):
        if nested_spec(e):
            return
        for mode in ('min', 'full'):
            text = ' '.join(expr_tokens(e, mode))
            assert RE.parse_expr(text) == canon(e), (text, RE.parse_expr(text), canon(e))
        n[0] += 1

    def strip(x):
        """tuple form of a program without Paren nodes and types"""
        if isinstance(x, hast.Paren):
            return strip(x.e)
        if isinstance(x, hast.Node):
            if isinstance(x, hast.Lit) and x.kind == 'int' and x.value < 0:
                return ('Un', '-', ('Lit', 'int', -x.value, None))
            return (type(x).__name__,) + tuple(strip(getattr(x, f)) for f in x.fields)
        if isinstance(x, (list, tuple)):
            return tuple(strip(v) for v in x)
        return x

    @hypothesis.seed(8)
    @settings(max_examples=300, database=None, deadline=None, suppress_health_check=list(HealthCheck))
    @given(programs(features=ALL_FEATURES))
    def t2(case):
        prog = case[0]
        back = parse_program(to_source(prog))
        assert strip(back) == strip(prog), to_source(prog)
        n[1] += 1

    try:
        t1()
        t2()
    except AssertionError as e:
        print('selftest 4 (printer/parser closed loop): MISMATCH', str(e)[:600])
        return False
    print('selftest 4 (printer/parser closed loop): %d expression trees, %d programs round-trip' % (n[0], n[1]))
    return True


def step_generator_welltyped():
    """5. ref.types accepts every program gen.programs builds and infers the types the generator annotated."""
    import hypothesis
    from hypothesis import given, settings, HealthCheck
    import hast
    from hast.printer import to_source
    from ref.parse import parse_program
    from ref.types import check_program, RefTypeError
    from gen.programs import programs, ALL_FEATURES
    n = [0]

    def exprs(x, out):
        for node in hast.walk(x):
            if isinstance(node, hast.Un) and node.op == '-' and isinstance(node.e, hast.Lit) and node.e.kind == 'int' and node.e.value >= 0:
                continue    # a negative literal of the generator is printed as - N
            if isinstance(node, (hast.Bin, hast.Un, hast.Is, hast.Index, hast.Len, hast.Call, hast.Var, hast.Spec)):
                out.append(node)
        return out

    @hypothesis.seed(9)
    @settings(max_examples=400, database=None, deadline=None, suppress_health_check=list(HealthCheck))
    @given(programs(features=ALL_FEATURES))
    def t(case):
        prog = case[0]
        src = to_source(prog)
        back = parse_program(src)
        try:
            check_program(back)
        except RefTypeError as e:
            raise AssertionError('generator output rejected by ref.types: %s\n%s' % (e, src))
        a = [(type(e).__name__, e.t) for e in exprs(prog, [])]
        b = [(type(e).__name__, e.t) for e in exprs(back, [])]
        assert a == b, 'type annotations differ: %r\n' % ([(x, y) for x, y in zip(a, b) if x != y][:3],) + src
        n[0] += 1

    try:
        t()
    except AssertionError as e:
        print('selftest 5 (generator vs reference typechecker): MISMATCH', str(e)[:1500])
        return False
    print('selftest 5 (generator vs reference typechecker): %d programs accepted with identical annotations' % n[0])
    return True


STEPS = [step_codegen_tests, step_readme_examples, step_vm_vs_naive, step_printer_parser_loop, step_generator_welltyped]


def main():
    from harness.runner import _bigframe
    sys.setrecursionlimit(20000)
    ok = True
    for step in STEPS:
        try:
            good = _bigframe(step)
        except Exception:  # noqa
            import traceback
            traceback.print_exc()
            good = False
        ok = ok and good
    print('selftest:', 'OK' if ok else 'FAILED')
    return 0 if ok else 1


if __name__ == '__main__':
    sys.exit(main())
