#!/venv/bin/python
"""atheris (libFuzzer) targets for the thorough tier of C10 and C12.

usage: fuzz/target.py c10|c12 [libFuzzer args...]
The semantic oracle sits inside the target: c10 = totality of the whole pipeline (only CompilerError, located,
renderable; output assembles); c12 = hidc.lexer.lex agrees with the reference tokenizer.  A violation raises,
libFuzzer saves the input (artifact_prefix), and the calling check re-judges the saved input with its own oracle.
"""
import os
import sys

HERE = os.path.dirname(os.path.abspath(__file__))
VERIF = os.path.dirname(HERE)
sys.path.insert(0, VERIF)
sys.path.append(os.path.join(VERIF, '.deps'))
sys.setrecursionlimit(3000)

import atheris  # noqa: E402

with atheris.instrument_imports(include=['hidc']):
    from harness import hidc_driver as H  # noqa: E402,F401

from harness.runner import Stats  # noqa: E402
from harness.hyp import Discard  # noqa: E402

MODE = sys.argv[1]
STATS = Stats()
STATFILE = os.environ.get('FUZZ_STATS')
COUNT = [0]


def dump_stats():
    if not STATFILE:
        return
    import json
    d = {'evaluations': STATS.evaluations, 'nontrivial': sorted(STATS.nontrivial), 'classes': dict(STATS.classes),
         'discarded': dict(STATS.discarded), 'samples': STATS.samples[:6]}
    with open(STATFILE + '.tmp', 'w') as f:
        json.dump(d, f)
    os.replace(STATFILE + '.tmp', STATFILE)


def tick(text):
    COUNT[0] += 1
    if COUNT[0] % 5000 == 1:
        STATS.sample({'text': text[:300]})
    if COUNT[0] % 1000 == 0:
        dump_stats()


class OracleViolation(Exception):
    pass


def decode(data):
    try:
        text = data.decode('utf-8')
    except UnicodeDecodeError:
        return None
    if len(text) > 400:
        return None
    return text


def one_c10(data):
    text = decode(data)
    if text is None:
        return
    from props import C10
    tick(text)
    try:
        r = C10.check_input(STATS, text, 16, 500, False, False, 50, allow_cli=False)
    except Discard:
        return
    if r:
        dump_stats()
        raise OracleViolation(r[1][:2000])


def one_c12(data):
    text = decode(data)
    if text is None:
        return
    from props import C12
    tick(text)
    try:
        r = C12.check_text(STATS, text)
    except Discard:
        return
    if r:
        raise OracleViolation(r[1][:2000])


def main():
    from harness.runner import _bigframe
    argv = [sys.argv[0]] + sys.argv[2:]
    atheris.Setup(argv, one_c10 if MODE == 'c10' else one_c12)
    _bigframe(atheris.Fuzz)


if __name__ == '__main__':
    main()
