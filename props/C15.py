"""C15 - --unchecked changes nothing on fault-free runs."""
from gen.programs import programs, ALL_FEATURES, argv_strings
from harness.runner import Stats, case_hash
from harness.hyp import search, derive_seed, Discard
from harness.execute import S0, run_lines, compile_lines
from harness.progcase import case_json, case_from_json, program_minimizer, fmt_events, first_diff
from harness import hidc_driver as H
from hast.printer import to_source
import svm

PROPERTY = 'C15'
RULE = ('Hypothesis-generated accepted programs (sequential and time-travel features, fault-prone operands), argv, word '
        'sizes {2,3,4,8}. Both builds run on the VM; if the checked run raises none of stack_overflow, division_by_zero, '
        'out_of_bounds, nonlocal_preempt, the unchecked build must produce the identical committed event stream and end '
        'state. Non-trivial: the checked run executed (on its committed path, observed by a replay monitor on code labels) '
        'at least 3 distinct kinds of guard among function-entry, index, division, dynamic-length, allocation-overflow and '
        'return protection. Distinct by hash of (source, argv, word size). Plus four enumerated grid shards (word sizes 2,3,4,8): '
        'one program per boundary literal L (about 35 per word size: small values, powers of two, 2**(8w-1) and 2**(8w) with '
        'neighbours, both signs) applying + - * / % (skipped when L is 0 in the word), the six comparisons and the compound '
        'forms to a parameter, a global, an array element and a byte, in both operand orders, for 17 boundary operand '
        'values; same oracle; each fault-free grid program counts as non-trivial.')
ASSUMPTIONS = ['verification Sphinx VM (svm); machine-level faults in the unchecked build are reported as differences only if the checked run was fault-free']
MIN_NONTRIVIAL = 100
FAULT_FLAGS = {'stack_overflow', 'division_by_zero', 'out_of_bounds', 'nonlocal_preempt'}
GUARD_LABELS = {'no_overflow': 'entry_or_alloc', 'index_in_bounds': 'index', 'div_allowed': 'division',
                'safe_length': 'length'}


class LabelMonitor(svm.NullMonitor):
    def __init__(self, prog):
        self.kinds = set()
        self.at = {}
        for pc, names in prog.code_labels.items():
            for n in names:
                base = n.rsplit('_', 1)[0]
                if base in GUARD_LABELS:
                    self.at[pc] = GUARD_LABELS[base]

    def on_instr(self, pc, op, a):
        k = self.at.get(pc)
        if k:
            self.kinds.add(k)

    def on_jump(self, pc, target, taken, operand):
        if operand == ('i', self.nlp):
            self.kinds.add('return_protection')


def guard_kinds(run):
    prog = run.prog
    m = LabelMonitor(prog)
    m.nlp = prog.labels.get('nonlocal_preempt', (None, -1))[1]
    vm = svm.VM(prog)
    vm.replay(run.res.decisions, m, max_steps=run.res.steps + 10)
    return m.kinds


def shards(tier):
    return list(range(16)) + ['grid2', 'grid3', 'grid4', 'grid8']


def grid_literals(ws):
    B = 8 * ws
    vals = {1, 2, 3, 4, 7, 8, 10, 16, 64, 128, 255, 256, 257, 1000, 2 ** 15, 2 ** 16, 2 ** 23, 2 ** 24, 2 ** 31, 2 ** 32, 2 ** 63, 2 ** 64,
            2 ** (B - 2), 2 ** (B - 1) - 1, 2 ** (B - 1), 2 ** (B - 1) + 1, 2 ** B - 2, 2 ** B - 1, 2 ** B, 2 ** B + 1, 2 ** B + 2, 3 * 2 ** (B - 1),
            2 ** (B + 1), 2 ** (B - 8), 2 ** (B - 9)}
    return sorted(vals)


def grid_source(L, ws, neg):
    """Every arithmetic / comparison operator between run-time operands (parameter, global, element, byte, compound
    target) and the literal L (or -L), in both operand orders.  Division by a literal that is 0 in the target word is
    left out (it faults, which is outside the property)."""
    B = 8 * ws
    lit = '-%d' % L if neg else '%d' % L
    zero = L % (2 ** B) == 0
    body = []
    for x in ('p', 'g', 'a[1]', '(b is int)'):
        for op in ('+', '-', '*') + (() if zero else ('/', '%')):
            body.append('write(%s %s %s); write(\';\');' % (x, op, lit))
            body.append('write(%s %s %s); write(\';\');' % (lit, '+' if op in '/%' else op, x))
        for op in ('<', '<=', '>', '>=', '==', '!='):
            body.append('if (%s %s %s) { write(\'T\'); } else { write(\'F\'); }' % (x, op, lit))
    body.append('if (p != 0) { write(%s / p); write(\';\'); write(%s %% p); write(\';\'); }' % (lit, lit))
    for op in ('+=', '-=', '*=') + (() if zero else ('/=', '%=')):
        body.append('t = p; t %s %s; write(t); write(\';\');' % (op, lit))
        body.append('a[0] = p; a[0] %s %s; write(a[0]); write(\';\');' % (op, lit))
        body.append('c = b; c %s %s; write(c is int); write(\';\');' % (op, lit))
    xs = [0, 1, -1, 2, 5, -7, 127, 128, 255, 256, 1000, -1000, 2 ** (B - 1) - 1, -(2 ** (B - 1)), 2 ** (B - 2), -(2 ** (B - 2)) - 1, 2 ** (B - 1) - 256]
    calls = ''.join('  f(%d, %d);\n' % (x, x % 256) for x in xs)
    return ('int g = 0;\nempty f(int p, byte b) {\n  g = p; int t = 0; byte c = 0; int[] a = [0, 0]; a[1] = p;\n  ' + '\n  '.join(body) +
            '\n  writeln();\n}\nempty @is_you() {\n' + calls + '}\n')


def check_grid(stats, L, ws, neg):
    src = grid_source(L, ws, neg)
    try:
        lines = compile_lines(src, ws, S0, False)
        lines_u = compile_lines(src, ws, S0, True)
    except H.CompilerError as e:
        stats.cls('grid_rejected')
        return None
    rc = run_lines(lines, (), budget=20_000_000)
    stats.evaluated()
    if rc.outcome == svm.BUDGET or set(rc.flags) & FAULT_FLAGS:
        stats.cls('grid_checked_run_faulted_or_budget')
        return None
    ru = run_lines(lines_u, (), budget=20_000_000)
    stats.cls('grid_pairs_ws%d' % ws)
    stats.nt('grid:%d:%d:%d' % (L, ws, neg))
    if rc.events != ru.events or rc.outcome != ru.outcome:
        i = first_diff(rc.events, ru.events)
        return 'operators against the literal %s%d at ws=%d: checked %s (%s) vs unchecked %s (%s), first difference at event #%d' % (
            '-' if neg else '', L, ws, fmt_events(rc.events)[:300], rc.outcome, fmt_events(ru.events)[:300], ru.outcome, i)
    return None


def run_grid(ws, stats):
    for L in grid_literals(ws):
        for neg in (0, 1):
            m = check_grid(stats, L, ws, neg)
            if m:
                stats.violation({'kind': 'grid', 'value': [L, ws, neg], 'message': m, 'signature': 'grid:%d' % ws})
    stats.sample({'kind': 'operator grid against boundary literals', 'ws': ws, 'literals': [str(v) for v in grid_literals(ws)][:12],
                  'source': grid_source(2 ** (8 * ws - 1), ws, 0)[:600]})
    return stats


def check_case(stats, case):
    prog, vals, ws = case
    src = to_source(prog)
    args = argv_strings(vals)
    try:
        lines = compile_lines(src, ws, S0, False)
        lines_u = compile_lines(src, ws, S0, True)
    except H.CompilerError as e:
        raise Discard('rejected: ' + type(e).__name__)
    rc = run_lines(lines, args, budget=1_500_000)
    if rc.outcome == svm.BUDGET:
        raise Discard('vm budget')
    stats.evaluated()
    if set(rc.flags) & FAULT_FLAGS:
        stats.cls('checked_run_faulted')
        raise Discard('checked run raised a fault (outside the property)')
    ru = run_lines(lines_u, args, budget=1_500_000)
    if ru.outcome == svm.BUDGET:
        raise Discard('vm budget')
    stats.cls('pairs_ws%d' % ws)
    kinds = guard_kinds(rc) if rc.res is not None else set()
    for k in kinds:
        stats.cls('guard_' + k)
    if len(kinds) >= 3:
        stats.nt(case_hash([src, repr(vals), ws]))
    if rc.events != ru.events or rc.outcome != ru.outcome:
        i = first_diff(rc.events, ru.events)
        return ('diff', 'ws=%d argv=%r: checked %s (%s) vs unchecked %s (%s), first difference at event #%d\n%s' % (
            ws, vals, fmt_events(rc.events), rc.outcome, fmt_events(ru.events), ru.outcome, i, src))
    return None


def run_shard(k, seed, tier):
    stats = Stats()
    if isinstance(k, str):
        return run_grid(int(k[4:]), stats)
    n = 450 if tier == 'quick' else 8000
    strat = programs(features=ALL_FEATURES, size=dict(main_stmts=12, funcs=5))

    def chk(case):
        if stats.evaluations % 80 == 0:
            stats.sample({'source': to_source(case[0]), 'argv': repr(case[1]), 'ws': case[2]})
        return check_case(stats, case)

    quiet = Stats()
    mini = program_minimizer(lambda v: check_case(quiet, v), lambda v: v, lambda v, p: (p, v[1], v[2]))
    search(strat, chk, seed=derive_seed(seed, 'C15', k), max_examples=n, stats=stats, shrink=(tier == 'thorough'),
           minimizer=mini, to_case=lambda v, m: dict(case_json(*v), message=m, kind='program'))
    return stats


def replay(case):
    if case.get('kind') == 'grid':
        return check_grid(Stats(), *case['value'])
    prog, vals, ws = case_from_json(case)
    try:
        r = check_case(Stats(), (prog, vals, ws))
    except Discard:
        return None
    return r[1] if r else None
