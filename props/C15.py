"""C15 - --unchecked changes nothing on fault-free runs."""
from gen.programs import programs, ALL_FEATURES, argv_strings
from harness.runner import Stats, case_hash
from harness.hyp import search, derive_seed, Discard
from harness.execute import S0, run_lines, compile_lines
from harness.progcase import case_json, case_from_json, program_minimizer, fmt_events, first_diff
from harness import hidc_driver as H
from hast.printer import to_source
import svm

PROPERTY = 'C15'
RULE = ('Hypothesis-generated accepted programs (sequential and time-travel features, fault-prone operands), argv, word '
        'sizes {2,3,4,8}. Both builds run on the VM; if the checked run raises none of stack_overflow, division_by_zero, '
        'out_of_bounds, nonlocal_preempt, the unchecked build must produce the identical committed event stream and end '
        'state. Non-trivial: the checked run executed (on its committed path, observed by a replay monitor on code labels) '
        'at least 3 distinct kinds of guard among function-entry, index, division, dynamic-length, allocation-overflow and '
        'return protection. Distinct by hash of (source, argv, word size).')
ASSUMPTIONS = ['verification Sphinx VM (svm); machine-level faults in the unchecked build are reported as differences only if the checked run was fault-free']
MIN_NONTRIVIAL = 100
FAULT_FLAGS = {'stack_overflow', 'division_by_zero', 'out_of_bounds', 'nonlocal_preempt'}
GUARD_LABELS = {'no_overflow': 'entry_or_alloc', 'index_in_bounds': 'index', 'div_allowed': 'division',
                'safe_length': 'length'}


class LabelMonitor(svm.NullMonitor):
    def __init__(self, prog):
        self.kinds = set()
        self.at = {}
        for pc, names in prog.code_labels.items():
            for n in names:
                base = n.rsplit('_', 1)[0]
                if base in GUARD_LABELS:
                    self.at[pc] = GUARD_LABELS[base]

    def on_instr(self, pc, op, a):
        k = self.at.get(pc)
        if k:
            self.kinds.add(k)

    def on_jump(self, pc, target, taken, operand):
        if operand == ('i', self.nlp):
            self.kinds.add('return_protection')


def guard_kinds(run):
    prog = run.prog
    m = LabelMonitor(prog)
    m.nlp = prog.labels.get('nonlocal_preempt', (None, -1))[1]
    vm = svm.VM(prog)
    vm.replay(run.res.decisions, m, max_steps=run.res.steps + 10)
    return m.kinds


def shards(tier):
    return list(range(16))


def check_case(stats, case):
    prog, vals, ws = case
    src = to_source(prog)
    args = argv_strings(vals)
    try:
        lines = compile_lines(src, ws, S0, False)
        lines_u = compile_lines(src, ws, S0, True)
    except H.CompilerError as e:
        raise Discard('rejected: ' + type(e).__name__)
    rc = run_lines(lines, args, budget=1_500_000)
    if rc.outcome == svm.BUDGET:
        raise Discard('vm budget')
    stats.evaluated()
    if set(rc.flags) & FAULT_FLAGS:
        stats.cls('checked_run_faulted')
        raise Discard('checked run raised a fault (outside the property)')
    ru = run_lines(lines_u, args, budget=1_500_000)
    if ru.outcome == svm.BUDGET:
        raise Discard('vm budget')
    stats.cls('pairs_ws%d' % ws)
    kinds = guard_kinds(rc) if rc.res is not None else set()
    for k in kinds:
        stats.cls('guard_' + k)
    if len(kinds) >= 3:
        stats.nt(case_hash([src, repr(vals), ws]))
    if rc.events != ru.events or rc.outcome != ru.outcome:
        i = first_diff(rc.events, ru.events)
        return ('diff', 'ws=%d argv=%r: checked %s (%s) vs unchecked %s (%s), first difference at event #%d\n%s' % (
            ws, vals, fmt_events(rc.events), rc.outcome, fmt_events(ru.events), ru.outcome, i, src))
    return None


def run_shard(k, seed, tier):
    stats = Stats()
    n = 450 if tier == 'quick' else 8000
    strat = programs(features=ALL_FEATURES, size=dict(main_stmts=12, funcs=5))

    def chk(case):
        if stats.evaluations % 80 == 0:
            stats.sample({'source': to_source(case[0]), 'argv': repr(case[1]), 'ws': case[2]})
        return check_case(stats, case)

    quiet = Stats()
    mini = program_minimizer(lambda v: check_case(quiet, v), lambda v: v, lambda v, p: (p, v[1], v[2]))
    search(strat, chk, seed=derive_seed(seed, 'C15', k), max_examples=n, stats=stats, shrink=(tier == 'thorough'),
           minimizer=mini, to_case=lambda v, m: dict(case_json(*v), message=m, kind='program'))
    return stats


def replay(case):
    prog, vals, ws = case_from_json(case)
    try:
        r = check_case(Stats(), (prog, vals, ws))
    except Discard:
        return None
    return r[1] if r else None
