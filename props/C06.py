"""C06 - flavour and context rules are enforced on every program."""
import itertools

from hypothesis import strategies as st

from harness.runner import Stats
from harness.hyp import search, derive_seed, Discard
from harness import hidc_driver as H
from ref.context import accepted

PROPERTY = 'C06'
RULE = ('A placement = function flavour {ordinary, you, defeat, global scope} x chain of enclosing contexts {plain block, '
        'if/else body, while/for body, try body (undo|stop), undo/stop handler, preempt body; expression hosts: if/while '
        'condition, for init/cond/step, return value, assignment rhs, declaration initialiser, dynamic array length, '
        'expression statement, index on either side, compound assignment; expression contexts: parenthesis, call argument, '
        'array-literal element, index, unary -, not, binary left/right, is operand, .length operand, ??-left, ??-right} x leaf '
        '{ordinary call, you call, defeat call, !is_defeat(), ??, try/undo, try/stop, preempt, break, continue, return}. '
        'Exhaustive for chains up to length 3 (quick) / 4 (thorough) plus Hypothesis chains up to length 8; the surrounding '
        'program is otherwise well-formed. Oracle: hidc.parser.parse raises ParserError iff the independent context '
        'checker ref/context.py (README "Summary of what\'s allowed in different blocks") rejects the placement - both '
        'directions. Non-trivial: chain length >= 2 and the verdict differs from the verdict of the same leaf with the '
        'innermost context element removed (a context-sensitive flip). Distinct by (flavour, chain, leaf).')
ASSUMPTIONS = ['ref/context.py reads the README table; only parse-stage verdicts are compared (type errors cannot interfere)']
MIN_NONTRIVIAL = 500

STMT_CTX = ['block', 'if_body', 'else_body', 'while_body', 'for_body', 'try_undo_body', 'try_stop_body', 'undo_handler',
            'stop_handler', 'preempt_body']
HOSTS = ['cond_if', 'cond_while', 'for_init', 'for_cond', 'for_step', 'return_value', 'assign_rhs', 'decl_init',
         'vla_length', 'expr_stmt', 'index_rhs', 'index_target', 'compound_rhs']
EXPR_CTX = ['paren', 'call_arg', 'array_elem', 'index', 'unary', 'not', 'bin_left', 'bin_right', 'is_operand', 'length_of',
            'spec_left', 'spec_right']
STMT_LEAVES = ['try_undo', 'try_stop', 'preempt', 'break', 'continue', 'return', 'neutral_stmt']
EXPR_LEAVES = ['call_ordinary', 'call_you', 'call_defeat', 'is_defeat', 'spec', 'neutral_expr']

STMT_WRAP = {
    'block': '{ %s }', 'if_body': 'if (c) { %s }', 'else_body': 'if (c) { } else { %s }', 'while_body': 'while (c) { %s }',
    'for_body': 'for (;;) { %s }', 'try_undo_body': 'try { %s } undo { }', 'try_stop_body': 'try { %s } stop { }',
    'undo_handler': 'try { } undo { %s }', 'stop_handler': 'try { } stop { %s }', 'preempt_body': 'preempt { %s }',
}
HOST_WRAP = {
    'cond_if': 'if (%s) { }', 'cond_while': 'while (%s) { }', 'for_init': 'for (x = %s;;) { }', 'for_cond': 'for (; %s;) { }',
    'for_step': 'for (;; x = %s) { }', 'return_value': 'return %s;', 'assign_rhs': 'x = %s;', 'decl_init': 'int v = %s;',
    'vla_length': 'int w[%s];', 'expr_stmt': '%s;', 'index_rhs': 'x = a[%s];', 'index_target': 'a[%s] = 1;',
    'compound_rhs': 'x += %s;',
}
EXPR_WRAP = {
    'paren': '(%s)', 'call_arg': 'f(%s)', 'array_elem': '[%s, 1]', 'index': 'a[%s]', 'unary': '-(%s)', 'not': 'not (%s)',
    'bin_left': '(%s) + 1', 'bin_right': '1 + (%s)', 'is_operand': '(%s) is int', 'length_of': '[%s].length',
    'spec_left': '(%s) ?? 0', 'spec_right': '0 ?? (%s)',
}
LEAF_SRC = {
    'try_undo': 'try { } undo { }', 'try_stop': 'try { } stop { }', 'preempt': 'preempt { }', 'break': 'break;',
    'continue': 'continue;', 'return': 'return;', 'neutral_stmt': 'x = 1;',
    'call_ordinary': 'f(1)', 'call_you': '@y(1)', 'call_defeat': '!d(1)', 'is_defeat': '!is_defeat()', 'spec': 'x ?? 0',
    'neutral_expr': 'x',
}
PRELUDE = 'int f(int p) { return p; }\nint @y(int p) { return p; }\nint !d(int p) { return p; }\n'
FLAVOR_HEAD = {'': 'empty host()', '@': 'empty @host()', '!': 'empty !host()'}


def render(flavor, chain, leaf):
    inner = LEAF_SRC[leaf]
    # innermost first
    for el in reversed(chain):
        if el in EXPR_WRAP:
            inner = EXPR_WRAP[el] % inner
        elif el in HOST_WRAP:
            inner = HOST_WRAP[el] % inner
        elif el in STMT_WRAP:
            inner = STMT_WRAP[el] % inner
        elif el == 'global_init':
            inner = 'int gg = %s;' % inner
        elif el == 'global_vla':
            inner = 'int gw[%s];' % inner
        else:
            raise ValueError(el)
    if flavor == 'global':
        return PRELUDE + inner + '\nempty @is_you() { }\n'
    return PRELUDE + '%s {\n  %s\n}\nempty @is_you() { }\n' % (FLAVOR_HEAD[flavor], inner)


def hidc_accepts(src):
    try:
        H.parse(H.SourceCode.from_string(src))
        return True, ''
    except H.ParserError as e:
        return False, str(e)
    except H.LexerError as e:
        raise AssertionError('generated skeleton does not lex: %s\n%s' % (e, src))


def check(stats, flavor, chain, leaf):
    want = accepted(flavor, chain, leaf)
    src = render(flavor, chain, leaf)
    got, why = hidc_accepts(src)
    stats.evaluated()
    stats.cls('accepted' if want else 'rejected')
    if len(chain) >= 2:
        fl = flavor
        up = accepted(fl, chain[:-1], leaf) if (chain[-1] not in HOST_WRAP and chain[-1] not in ('global_init', 'global_vla')
                                                or leaf in EXPR_LEAVES and False) else None
        if up is None:
            # removing a host would turn an expression leaf into a statement position: compare with the next one up
            up = accepted(fl, chain[:-2] + chain[-1:], leaf) if len(chain) >= 2 and chain[-1] in HOST_WRAP else want
        if up != want:
            stats.nt('%s|%s|%s' % (flavor, ','.join(chain), leaf))
    if got != want:
        return ('accept' if got else 'reject', 'placement flavour=%r chain=%r leaf=%r: rules say %s, hidc %s %s\n%s' % (
            flavor, chain, leaf, 'accept' if want else 'reject', 'accepts' if got else 'rejects', why, src))
    return None


def placements(maxlen):
    """Enumerate (flavor, chain, leaf) with len(chain) <= maxlen."""
    for flavor in ('', '@', '!'):
        for s in range(0, maxlen + 1):
            for sc in itertools.product(STMT_CTX, repeat=s):
                for leaf in STMT_LEAVES:
                    yield flavor, list(sc), leaf
                for h in HOSTS:
                    for e in range(0, maxlen - s - 1 + 1):
                        if s + 1 + e > maxlen:
                            continue
                        for ec in itertools.product(EXPR_CTX, repeat=e):
                            for leaf in EXPR_LEAVES:
                                yield flavor, list(sc) + [h] + list(ec), leaf
    for g in ('global_init', 'global_vla'):
        for e in range(0, maxlen):
            for ec in itertools.product(EXPR_CTX, repeat=e):
                for leaf in EXPR_LEAVES:
                    yield 'global', [g] + list(ec), leaf


def shards(tier):
    return [('enum', k, 14) for k in range(14)] + [('rand', k, 2) for k in range(2)]


def run_shard(desc, seed, tier):
    kind, part, nparts = desc
    stats = Stats()
    if kind == 'enum':
        maxlen = 3 if tier == 'quick' else 4
        for i, (fl, chain, leaf) in enumerate(placements(maxlen)):
            if i % nparts != part:
                continue
            m = check(stats, fl, chain, leaf)
            if i % 9000 == part:
                stats.sample({'flavor': fl, 'chain': chain, 'leaf': leaf, 'source': render(fl, chain, leaf)})
            if m:
                stats.violation({'kind': 'placement', 'value': [fl, chain, leaf], 'message': m[1], 'signature': m[0]})
                if len(stats.violations) >= 5:
                    break
        stats.exhaustive = True
        return stats

    strat = st.tuples(st.sampled_from(['', '@', '!']), st.lists(st.sampled_from(STMT_CTX), max_size=5),
                      st.one_of(st.none(), st.tuples(st.sampled_from(HOSTS), st.lists(st.sampled_from(EXPR_CTX), max_size=4))),
                      st.sampled_from(STMT_LEAVES), st.sampled_from(EXPR_LEAVES))

    def chk(v):
        fl, sc, host, sl, el = v
        if host is None:
            return check(stats, fl, list(sc), sl)
        return check(stats, fl, list(sc) + [host[0]] + list(host[1]), el)

    def to_case(v, m):
        fl, sc, host, sl, el = v
        if host is None:
            return {'kind': 'placement', 'value': [fl, list(sc), sl], 'message': m}
        return {'kind': 'placement', 'value': [fl, list(sc) + [host[0]] + list(host[1]), el], 'message': m}

    search(strat, chk, seed=derive_seed(seed, 'C06', part), max_examples=4000 if tier == 'quick' else 60000, stats=stats, to_case=to_case)
    return stats


def replay(case):
    fl, chain, leaf = case['value']
    r = check(Stats(), fl, chain, leaf)
    return r[1] if r else None
