"""C02 - try/undo, try/stop, preempt and ?? follow their time-travel semantics."""
from hypothesis import strategies as st

from gen.programs import programs, ALL_FEATURES
from harness.runner import Stats, case_hash
from harness.hyp import search, derive_seed, Discard
from harness.execute import S0
from harness.progcase import check_program, case_json, case_from_json, program_minimizer
from hast.printer import to_source

PROPERTY = 'C02'
RULE = ('(a) Hypothesis RuleBasedStateMachine TimeTravelHistory: rules append segments to @is_you (plain code, try/undo and '
        'try/stop with drawn bodies and handlers - prints, global/array mutation, preempt blocks, inline and conditional defeat, '
        'plain/array-holding/preemptive/recursive/looping defeat helpers -, loops around a try left by fall-through, break or '
        'continue from body/handler/preempt, ?? in 18 expression positions with callees that read or mutate the assignment '
        'target, calls of you-helpers containing their own try); after every rule the program-so-far is compiled, run and '
        'compared, so the explored history is the sequence of try blocks executed in one run. (b) Hypothesis composite generator of well-typed programs using try/undo, try/stop, preempt (in try bodies and in '
        '(recursive, preemptive) defeat functions), ?? in every expression position a you-function offers, and sequences '
        'of several try blocks in one run; argv drawn with the program; word sizes {2,3,4,8}; checked builds at a generous '
        'stack. Oracle: prophecy reference interpreter (choice points resolved by re-execution with a choice script: '
        'default unless it leads to real defeat, most recent first) - committed event stream and end state must be '
        'identical. Non-trivial: the reference run flipped >=1 choice point and executed >=2 try blocks, or flipped >=1 '
        'choice and executed a preempt/?? choice. Distinct by hash of (source, argv, word size).')
ASSUMPTIONS = ['verification Sphinx VM (svm) as calibrated in DESIGN.md 2.1',
               'reference prophecy semantics in ref/interp.py (README "Time travel", "Computational astrology", '
               '"The speculation operator", "Preemptive defeat functions")',
               'programs containing an out-of-range folded constant (known finding F4) are excluded by construction']
MIN_NONTRIVIAL = 100

FEATURES = ALL_FEATURES - {'faults', 'bigvals', 'terminal'}


def shards(tier):
    return [('gen', k) for k in range(10)] + [('machine', k) for k in range(6)]


def check_case(stats, case):
    prog, vals, ws = case
    v = check_program(prog, vals, ws, S=S0, stats=stats)
    stats.evaluated()
    stats.cls('ws%d' % ws)
    stats.cls('ref_' + v.ref.kind)
    rs = v.ref.stats
    for k, n in rs['choices'].items():
        stats.cls('choice_' + k, n)
    if rs['flips']:
        stats.cls('runs_with_flips')
    kinds = {k.split(':')[0] for k in rs['choices']}
    if rs['flips'] >= 1 and (rs['try_blocks'] >= 2 or 'preempt' in kinds or 'spec' in kinds):
        stats.nt(case_hash([v.src, repr(vals), ws]))
    if v.status != 'agree':
        return (v.sig, 'ws=%d argv=%r: %s\n%s' % (ws, vals, v.msg, v.src))
    return None


def run_shard(desc, seed, tier):
    kind, k = desc
    stats = Stats()
    if kind == 'machine':
        from props.c02_machine import run_machine
        run_machine(derive_seed(seed, 'C02', 'machine', k), 150 if tier == 'quick' else 2500, stats, steps=8,
                    shrink=(tier == 'thorough'))
        stats.sample({'kind': 'state machine', 'rules': ['add_plain', 'add_try', 'add_speculation', 'add_loop_around_try', 'add_call_you']})
        return stats
    n = 900 if tier == 'quick' else 12000
    size = dict(main_stmts=12, funcs=5)
    strat = programs(features=FEATURES, size=size)

    def chk(case):
        if stats.evaluations % 60 == 0:
            stats.sample({'source': to_source(case[0]), 'argv': repr(case[1]), 'ws': case[2]})
        return check_case(stats, case)

    quiet = Stats()
    mini = program_minimizer(lambda v: check_case(quiet, v), lambda v: v, lambda v, p: (p, v[1], v[2]))
    search(strat, chk, seed=derive_seed(seed, 'C02', k), max_examples=n, stats=stats,
           shrink=(tier == 'thorough'), minimizer=mini,
           to_case=lambda v, m: dict(case_json(*v), message=m, kind='program'))
    return stats


def replay(case):
    if case.get('kind') == 'machine':
        from props.c02_machine import replay_machine
        return replay_machine(case)
    prog, vals, ws = case_from_json(case)
    try:
        r = check_case(Stats(), (prog, vals, ws))
    except Discard:
        return None
    return r[1] if r else None
