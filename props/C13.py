"""C13 - constant data reaches the output byte for byte."""
import random

from hypothesis import strategies as st

from harness.runner import Stats
from harness.hyp import search, derive_seed, Discard
from harness.execute import run_lines, compile_lines, S0
from harness import hidc_driver as H
import svm

PROPERTY = 'C13'
RULE = ('String constants: each of the 256 byte values alone, ordered pairs (quick: all pairs involving one of '
        '\\ " \' LF CR NUL 0x7f 0x80 0xff plus a seeded sample; thorough: all 65536), Hypothesis strings of length 0..64, '
        'spelled with \\xNN escapes, named escapes or raw text; string and character literals whose characters are all written raw (every control character except line breaks, U+0080-U+00FF, Unicode line/paragraph separators and spaces, BMP and astral boundaries, Hypothesis text) denoting their UTF-8 encoding; character literals for every value (raw where printable, '
        'named escape, \\xNN). Constant arrays of int/byte/bool/string, lengths 0..40, boundary element values, as const '
        'global, mutable global, const local, mutable local and call argument, several per program including '
        'prefix/zero-padded (1-24 zeros)/all-zero/identical siblings. Mixed programs: the same byte values as string content, char immediates and const byte[] elements of one program (all 256 values in groups of 16, the three quote characters alone and together; both source orders; one worker renders chars first, the other strings first). Oracles: (i) the emitted assembly assembles on the strict assembler; '
        '(ii) static: the const/state sections hold exactly length word + bytes per distinct string, and exactly the '
        'packed elements per array label; (iii) dynamic: the program prints .length, write() of the constant and every '
        'element by index (through a loop variable and through literal indices), all equal to the denoted bytes. Non-trivial: constants containing a byte outside [0x20,0x7e] or '
        'one of \\ " \'. Distinct by constant contents + form.')
ASSUMPTIONS = ['strict assembler in svm/asm.py defines "well-formed for the Sphinx assembler" (DESIGN 2.1)']
MIN_NONTRIVIAL = 500

SPECIAL = [0x5c, 0x22, 0x27, 0x0a, 0x0d, 0x00, 0x7f, 0x80, 0xff]
NAMED = {7: '\\a', 8: '\\b', 12: '\\f', 10: '\\n', 13: '\\r', 9: '\\t', 0: '\\0', 0x27: "\\'", 0x22: '\\"', 0x5c: '\\\\'}


def nontrivial_bytes(data):
    return any(b < 0x20 or b > 0x7e or b in (0x5c, 0x22, 0x27) for b in data)


def spell_string(data, style):
    """Source spelling of a byte string.  style: 'hex' | 'named' | 'raw'."""
    out = ['"']
    for b in data:
        if style == 'hex':
            out.append('\\x%02x' % b)
        elif b in NAMED and not (style == 'raw' and b == 0x27):
            out.append(NAMED[b])
        elif 0x20 <= b <= 0x7e:
            out.append(chr(b))
        else:
            out.append('\\x%02X' % b)
    out.append('"')
    return ''.join(out)


def spell_char(b, style):
    if style == 'hex':
        return "'\\x%02x'" % b
    if b in NAMED and not (style == 'raw' and b == 0x22):
        return "'" + NAMED[b] + "'"
    if 0x20 <= b <= 0x7e:
        return "'" + chr(b) + "'"
    return "'\\x%02x'" % b


STRING_HELPER = ('empty p(string s) { write(s.length); write(\':\'); write(s); write(\'|\'); '
                 'for (int i = 0; i < s.length; i += 1) { write(s[i]); } write(\'#\'); }\n')


def run_prog(src, ws=2, args=()):
    try:
        lines = compile_lines(src, ws, S0, False)
    except H.CompilerError as e:
        return None, 'rejected: %s: %s' % (type(e).__name__, e)
    r = run_lines(lines, args, budget=30_000_000)
    return r, None


def string_labels(prog):
    """-> list of byte strings stored at string_N labels of the const section."""
    out = []
    ws = prog.ws
    for name, off in prog.const_objs:
        if name.startswith('string_'):
            n = int.from_bytes(prog.const[off:off + ws], 'little')
            out.append(bytes(prog.const[off + ws:off + ws + n]))
    return out


def check_strings(stats, strings, style, ws):
    """strings: list of bytes; one program printing all of them."""
    src = STRING_HELPER + 'empty @is_you() {\n' + ''.join('  p(%s);\n' % spell_string(s, style) for s in strings) + '}\n'
    views = strings[:3]
    if views:
        # the same constants held in mutable global string variables and viewed as const byte[] three ways
        src = ''.join('string gv%d = %s;\n' % (i, spell_string(s, style)) for i, s in enumerate(views)) + \
            'empty pv(const byte[] b) { write(b.length); write(\':\'); write(b); write(\'|\'); for (int i = 0; i < b.length; i += 1) { write(b[i]); } write(\'#\'); }\n' + src[:-2] + \
            ''.join('  pv(gv%d); write(gv%d is byte[]); const byte[] cv%d = gv%d; write(cv%d); write(\'#\');\n' % (i, i, i, i, i) for i in range(len(views))) + '}\n'
    r, err = run_prog(src, ws)
    stats.evaluated(len(strings))
    stats.cls('strings_' + style, len(strings))
    for s in strings:
        if nontrivial_bytes(s):
            stats.nt('s:%s:%s:%d' % (s.hex(), style, ws))
    if err:
        return 'strings %r (style %s): %s' % (strings[:3], style, err)
    exp = b''.join(str(len(s)).encode() + b':' + s + b'|' + s + b'#' for s in strings)
    exp_views = b''.join(str(len(s)).encode() + b':' + s + b'|' + s + b'#' + s + s + b'#' for s in views)
    if r.outcome.startswith('asm_error'):
        return 'output does not assemble (%s) for strings like %r' % (r.outcome, strings[:3])
    if r.out.startswith(exp) and r.out != exp + exp_views:
        return 'string constants in mutable globals viewed as const byte[] (parameter / is byte[] / const binding): printed %r, expected %r (style %s, ws %d)' % (
            r.out[len(exp):][:120], exp_views[:120], style, ws)
    exp = exp + exp_views
    if r.out != exp or not r.won:
        pos = 0
        bad = None
        for s in strings:
            e = str(len(s)).encode() + b':' + s + b'|' + s + b'#'
            if r.out[pos:pos + len(e)] != e:
                bad = (s, r.out[pos:pos + len(e) + 4])
                break
            pos += len(e)
        return 'string constant %r printed as %r (style %s, ws %d; flags %r)' % (bad and bad[0], bad and bad[1], style, ws, r.flags)
    # static
    stored = string_labels(r.prog)
    want = []
    for s in strings:
        if s not in want:
            want.append(s)
    if sorted(stored) != sorted(want):
        return 'const section holds string constants %r, expected %r' % (sorted(stored)[:4], sorted(want)[:4])
    return None


def check_mixed(stats, values, sstyle, cstyle, ws, order):
    """The same byte values as string content, as char immediates and as elements of a const byte[] / int[] in ONE
    program (the renderer of constant data serves all three contexts; a quote needs different escapes in each).
    order 0: strings are used first in the source, 1: chars first."""
    parts = []
    exp = b''
    glob = 'const byte[] kb = [%s];\n' % ', '.join(spell_char(b, cstyle) for b in values)
    for i, b in enumerate(values):
        s = bytes([b, 0x78, b])
        ps = '  p(%s);\n' % spell_string(s, sstyle)
        pc = '  write(%s); write((%s) is int); write(\';\');\n' % (spell_char(b, cstyle), spell_char(b, cstyle))
        es = str(len(s)).encode() + b':' + s + b'|' + s + b'#'
        ec = bytes([b]) + str(b).encode() + b';'
        parts.append(ps + pc if order == 0 else pc + ps)
        exp += es + ec if order == 0 else ec + es
    src = glob + STRING_HELPER + 'empty @is_you() {\n' + ''.join(parts) + '  write(kb); write(kb.length);\n}\n'
    exp += bytes(values) + str(len(values)).encode()
    r, err = run_prog(src, ws)
    stats.evaluated(len(values))
    stats.cls('mixed_%s_%s_order%d' % (sstyle, cstyle, order), len(values))
    for b in values:
        if nontrivial_bytes([b]):
            stats.nt('m:%d:%s:%s:%d:%d' % (b, sstyle, cstyle, ws, order))
    if err:
        return 'strings and char literals of %r in one program (styles %s/%s): %s' % (values[:6], sstyle, cstyle, err)
    if r.outcome.startswith('asm_error'):
        return 'output does not assemble (%s) when %r occur as string content and as char literals in one program (styles %s/%s, order %d)' % (
            r.outcome, values[:6], sstyle, cstyle, order)
    if r.out != exp or not r.won:
        n = 0
        while n < min(len(exp), len(r.out)) and exp[n] == r.out[n]:
            n += 1
        return 'bytes %r as string content + char literals in one program (styles %s/%s, ws %d, order %d): output differs at offset %d: %r, expected %r; flags %r' % (
            values[:6], sstyle, cstyle, ws, order, n, r.out[max(0, n - 4):n + 12], exp[max(0, n - 4):n + 12], r.flags)
    return None


RAW_POINTS = ([c for c in range(0, 0x20) if c not in (0x0a, 0x0d)] + [0x7f] + list(range(0x80, 0x100)) +
              [0x100, 0x17f, 0x3a9, 0x7ff, 0x800, 0x1680, 0x180e, 0x2000, 0x200a, 0x200b, 0x2028, 0x2029, 0x202f, 0x205f, 0x2060, 0x3000,
               0xd7ff, 0xe000, 0xfeff, 0xfffd, 0xffff, 0x10000, 0x1f30e, 0x10ffff])


def check_raw_text(stats, texts, ws):
    """String literals whose characters are all written raw in the source (no escapes): every character other than
    `"`, `\\` and a line break denotes its own UTF-8 encoding (README: string type, "Nominally utf-8 encoded")."""
    strings = [t.encode('utf-8') for t in texts]
    src = STRING_HELPER + 'empty @is_you() {\n' + ''.join('  p("%s");\n' % t for t in texts) + '}\n'
    r, err = run_prog(src, ws)
    stats.evaluated(len(texts))
    stats.cls('strings_rawtext', len(texts))
    for t, s in zip(texts, strings):
        if nontrivial_bytes(s):
            stats.nt('t:%s:%d' % (s.hex(), ws))
    if err:
        # find the offending literal for the message
        for t in texts:
            r1, e1 = run_prog(STRING_HELPER + 'empty @is_you() {\n  p("%s");\n}\n' % t, ws)
            if e1:
                return 'raw string literal %r (code points %s): %s' % (t, [hex(ord(c)) for c in t], e1)
        return 'raw string literals: %s' % err
    exp = b''.join(str(len(s)).encode() + b':' + s + b'|' + s + b'#' for s in strings)
    if r.outcome.startswith('asm_error'):
        return 'output does not assemble (%s) for raw strings like %r' % (r.outcome, texts[:3])
    if r.out != exp or not r.won:
        pos = 0
        bad = None
        for t, s in zip(texts, strings):
            e = str(len(s)).encode() + b':' + s + b'|' + s + b'#'
            if r.out[pos:pos + len(e)] != e:
                bad = (t, r.out[pos:pos + len(e) + 4])
                break
            pos += len(e)
        return 'raw string literal %r printed as %r (ws %d; flags %r)' % (bad and bad[0], bad and bad[1], ws, r.flags)
    return None


def check_raw_chars(stats, points, ws):
    """Character literals written raw: one-byte code points other than `'`, `\\`, line breaks."""
    src = 'empty @is_you() {\n' + ''.join("  write('%s' is int); write(';');\n" % chr(c) for c in points) + '}\n'
    r, err = run_prog(src, ws)
    stats.evaluated(len(points))
    stats.cls('chars_rawtext', len(points))
    for c in points:
        if nontrivial_bytes([c]):
            stats.nt('rc:%d:%d' % (c, ws))
    if err:
        return 'raw char literals: %s' % err
    exp = b''.join(str(c).encode() + b';' for c in points)
    if r.out != exp or not r.won:
        return 'raw char literals printed as %r..., expected %r...; flags %r' % (r.out[:60], exp[:60], r.flags)
    return None


def check_chars(stats, values, style, ws):
    src = 'empty @is_you() {\n' + ''.join('  write(%s); byte c%d = %s; write(c%d); write((%s) is int); write(\';\');\n' % (
        spell_char(b, style), i, spell_char(b, style), i, spell_char(b, style)) for i, b in enumerate(values)) + '}\n'
    r, err = run_prog(src, ws)
    stats.evaluated(len(values))
    stats.cls('chars_' + style, len(values))
    for b in values:
        if nontrivial_bytes([b]):
            stats.nt('c:%d:%s:%d' % (b, style, ws))
    if err:
        return 'char literals (style %s): %s' % (style, err)
    exp = b''.join(bytes([b, b]) + str(b).encode() + b';' for b in values)
    if r.out != exp or not r.won:
        pos = 0
        bad = None
        for b in values:
            e = bytes([b, b]) + str(b).encode() + b';'
            if r.out[pos:pos + len(e)] != e:
                bad = (b, r.out[pos:pos + len(e)])
                break
            pos += len(e)
        return 'char literal %r (style %s, ws %d) printed as %r; outcome %s flags %r' % (bad and bad[0], style, ws, bad and bad[1], r.outcome, r.flags)
    return None


# ---- constant arrays -------------------------------------------------------
def elem_src(el, v):
    if el == 'bool':
        return 'true' if v else 'false'
    if el == 'string':
        return spell_string(v, 'hex')
    if el == 'byte' and isinstance(v, tuple):
        return spell_char(v[0], 'named')
    return str(v) if v >= 0 else '-' + str(-v)


def elem_src_expr(el, v, idx):
    """The same element value spelled as a constant expression the compiler has to fold (casts of bool / char
    constants, arithmetic, unary operators): what reaches the data section must still be the value."""
    if el == 'string':
        return elem_src(el, v)
    val = elem_val(el, v)
    if el == 'bool':
        opts = (['true', 'not false', '1 == 1', '1 is bool', "'a' is bool", '2 > 1'] if val else
                ['false', 'not true', '1 == 2', '0 is bool', "'\\0' is bool", '1 > 2'])
    elif el == 'byte':
        b = val & 0xFF
        opts = ["'\\x%02x'" % b, str(b), '(%d) is byte' % b, '(%d + 256) is byte' % b, '%d - 1' % (b + 1)]
        if b in (0, 1):
            opts.append('true is byte' if b else 'false is byte')
    else:
        lit_ = str(val) if val >= 0 else '-' + str(-val)
        opts = [lit_, '(%s) + 1' % (str(val - 1) if val - 1 >= 0 else '-' + str(1 - val)) if val > 0 else '(%s) - 1' % (str(val + 1) if val + 1 >= 0 else '-' + str(-val - 1)),
                '-(%s)' % (str(-val) if -val >= 0 else '-' + str(val)), '+(%s)' % lit_]
        if val in (0, 1):
            opts.append('true is int' if val else 'false is int')
            opts.append('(true is byte) is int' if val else '(false is byte) is int')
        if 0 <= val <= 255:
            opts.append("'\\x%02x' is int" % val)
    return opts[(((idx + 1) * 2654435761 + (int(val) & 0xFFFF) * 40503) >> 7) % len(opts)]


def elem_val(el, v):
    return v[0] if isinstance(v, tuple) else v


def print_elem(el, e):
    if el == 'byte':
        return 'write(%s is int);' % e
    return 'write(%s);' % e


def expected_elem(el, v, ws):
    v = elem_val(el, v)
    if el == 'bool':
        return b'true' if v else b'false'
    if el == 'string':
        return v
    if el == 'int':
        b = 8 * ws
        v &= (1 << b) - 1
        if v >> (b - 1):
            v -= 1 << b
        return str(v).encode()
    return str(v & 0xFF).encode()


ARR_HELPERS = {
    el: 'empty show(const %s[] a) { write(a.length); write(\':\'); for (int i = 0; i < a.length; i += 1) { %s write(\',\'); } write(\'#\'); }\n' % (
        el, print_elem(el, 'a[i]')) for el in ('int', 'byte', 'bool', 'string')}


def pack(el, vals, ws):
    vals = [elem_val(el, v) for v in vals]
    if el == 'bool':
        out = bytearray((len(vals) + 7) // 8)
        for i, v in enumerate(vals):
            if v:
                out[i // 8] |= 1 << (i % 8)
        return bytes(out)
    if el == 'byte':
        return bytes(v & 0xFF for v in vals)
    if el == 'int':
        return b''.join((v & ((1 << 8 * ws) - 1)).to_bytes(ws, 'little') for v in vals)
    return None


def lit_indices(n):
    """A few literal indices per array: both ends, the byte boundaries of bit-packed data, the middle."""
    return sorted({0, n - 1, n // 2} | {k for k in (1, 7, 8, 9, 15, 16) if k < n})


def check_arrays(stats, el, arrays, forms, ws, spell=0):
    """arrays: list of element lists; forms[i] in const_global|mut_global|const_local|mut_local|argument.
    spell=1: elements are written as constant expressions (elem_src_expr) instead of plain literals."""
    glob = ARR_HELPERS[el]
    body = ''
    names = []
    for i, (vals, form) in enumerate(zip(arrays, forms)):
        if spell:
            stats.cls('arrays_spelled_as_constant_expressions')
            lit_ = '[' + ', '.join(elem_src_expr(el, v, j + i) for j, v in enumerate(vals)) + ']'
        else:
            lit_ = '[' + ', '.join(elem_src(el, v) for v in vals) + ']'
        name = 'k%d' % i
        if not vals and form in ('argument',):
            form = 'const_local'
        if form == 'const_global':
            glob += 'const %s[] %s = %s;\n' % (el, name, lit_)
            body += '  show(%s);\n' % name
        elif form == 'mut_global':
            glob += '%s[] %s = %s;\n' % (el, name, lit_)
            body += '  show(%s);\n' % name
        elif form == 'const_local':
            body += '  const %s[] %s = %s; show(%s);\n' % (el, name, lit_, name)
        elif form == 'mut_local':
            body += '  %s[] %s = %s; show(%s);\n' % (el, name, lit_, name)
        else:
            body += '  show(%s);\n' % lit_
        names.append((name, form))
        # the same elements through compile-time constant indices (a separate lowering from the loop in show())
        if form != 'argument' and vals:
            for k_ in lit_indices(len(vals)):
                body += '  %s write(\';\');\n' % print_elem(el, '%s[%d]' % (name, k_))
    src = glob + 'empty @is_you() {\n' + body + '}\n'
    r, err = run_prog(src, ws)
    stats.evaluated(len(arrays))
    stats.cls('arrays_' + el, len(arrays))
    for vals, form in zip(arrays, forms):
        stats.cls('array_form_' + form)
        flat = b''.join(expected_elem(el, v, ws) for v in vals)
        if nontrivial_bytes(flat) or el != 'string':
            stats.nt('a:%s:%s:%r:%d' % (el, form, vals, ws))
    if err:
        return 'arrays of %s %r: %s' % (el, arrays[:2], err)
    if r.outcome.startswith('asm_error'):
        return 'output does not assemble (%s) for %s arrays %r' % (r.outcome, el, arrays[:2])
    def expect_one(vals, form):
        e_ = str(len(vals)).encode() + b':' + b''.join(expected_elem(el, v, ws) + b',' for v in vals) + b'#'
        if form != 'argument' and vals:
            e_ += b''.join(expected_elem(el, vals[k_], ws) + b';' for k_ in lit_indices(len(vals)))
        return e_

    exp = b''
    for vals, form in zip(arrays, [f_ if (v_ or f_ != 'argument') else 'const_local' for v_, f_ in zip(arrays, forms)]):
        exp += expect_one(vals, form)
    if r.out != exp or not r.won:
        pos = 0
        bad = None
        for vals, form in zip(arrays, [f_ if (v_ or f_ != 'argument') else 'const_local' for v_, f_ in zip(arrays, forms)]):
            e = expect_one(vals, form)
            if r.out[pos:pos + len(e)] != e:
                bad = (vals, form, r.out[pos:pos + len(e) + 6])
                break
            pos += len(e)
        return 'constant %s array %r (%s, ws %d) printed as %r; flags %r outcome %s' % (
            el, bad and bad[0], bad and bad[1], ws, bad and bad[2], r.flags, r.outcome)
    # static: global data labels hold exactly the packed elements
    prog = r.prog
    for (name, form), vals in zip(names, arrays):
        if form not in ('const_global', 'mut_global') or el == 'string':
            continue
        lab = [n for n in prog.labels if n.startswith('var_%s_' % name)]
        if len(lab) != 1:
            return 'expected one data label for global %s, found %r' % (name, lab)
        sec, off = prog.labels[lab[0]]
        want_sec = 'const' if form == 'const_global' else 'state'
        mem = prog.const if sec == 'const' else prog.state
        p = pack(el, vals, ws)
        if sec != want_sec or bytes(mem[off:off + len(p)]) != p:
            return 'data of global %s array %r: section %s bytes %r, expected section %s bytes %r' % (
                el, vals, sec, bytes(mem[off:off + len(p)]), want_sec, p)
    return None


def boundary_elems(el, ws, rnd):
    hi = (1 << (8 * ws - 1)) - 1
    if el == 'int':
        return [0, 1, -1, 255, 256, -256, hi, -hi - 1, hi - 1, 10, 65, rnd.randint(-hi - 1, hi)]
    if el == 'byte':
        return [0, 1, 255, 128, 127, 10, 13, 34, 39, 92, (65,), (92,), (39,), (10,), (0,), rnd.randint(0, 255)]
    if el == 'bool':
        return [True, False]
    return [b'', b'a', b'\\', b'"', b"'", b'\n\r\x00', b'\xff\x80', bytes([rnd.randint(0, 255) for _ in range(rnd.randint(0, 5))])]


FORMS = ['const_global', 'mut_global', 'const_local', 'mut_local', 'argument']


def shards(tier):
    out = [('single', 0), ('chars', 0), ('rawtext', 0), ('rawtext', 1), ('mixed', 0), ('mixed', 1)]
    out += [('pairs', k) for k in range(4)]
    out += [('rand_strings', k) for k in range(3)]
    out += [('arrays', el, k) for el in ('int', 'byte', 'bool', 'string') for k in range(2)]
    return out


def run_shard(desc, seed, tier):
    stats = Stats()
    kind = desc[0]
    rnd = random.Random(repr((seed, desc)))
    if kind == 'single':
        for ws in (2, 4, 6):
            for style in ('hex', 'named', 'raw'):
                m = check_strings(stats, [bytes([b]) for b in range(256)], style, ws)
                if m:
                    stats.violation({'kind': 'strings', 'value': [[bytes([b]).hex() for b in range(256)], style, ws], 'message': m, 'signature': 'single'})
        stats.exhaustive = True
        stats.sample({'kind': 'every single-byte string', 'styles': ['hex', 'named', 'raw']})
    elif kind == 'rawtext' and desc[1] == 0:
        # every interesting code point alone, doubled, and between ASCII neighbours; raw char literals
        for ws in (2, 4):
            texts = []
            for c in RAW_POINTS:
                ch = chr(c)
                texts += [ch, ch + ch, 'a' + ch + 'b']
            for i in range(0, len(texts), 120):
                m = check_raw_text(stats, texts[i:i + 120], ws)
                if m:
                    stats.violation({'kind': 'rawtext', 'value': [texts[i:i + 120], ws], 'message': m, 'signature': 'rawtext'})
            pts = [c for c in range(0, 0x80) if c not in (0x0a, 0x0d, 0x27, 0x5c)]
            m = check_raw_chars(stats, pts, ws)
            if m:
                stats.violation({'kind': 'rawchars', 'value': [pts, ws], 'message': m, 'signature': 'rawchars'})
        stats.exhaustive = True
        stats.sample({'kind': 'raw (unescaped) characters in literals', 'code_points': [hex(c) for c in RAW_POINTS[:40]]})
    elif kind == 'rawtext':
        alphabet = st.one_of(st.sampled_from([chr(c) for c in RAW_POINTS]),
                             st.characters(blacklist_categories=('Cs',), blacklist_characters='"\\\n\r'))
        strat = st.tuples(st.lists(st.text(alphabet, min_size=0, max_size=24), min_size=1, max_size=10), st.sampled_from([2, 3, 4, 8]))

        def chk_raw(v):
            texts, ws = v
            if stats.evaluations % 200 == 0:
                stats.sample({'kind': 'rawtext', 'texts': texts[:3], 'ws': ws})
            m = check_raw_text(stats, texts, ws)
            return ('rawtext', m) if m else None

        search(strat, chk_raw, seed=derive_seed(seed, 'C13', desc), max_examples=120 if tier == 'quick' else 1500, stats=stats,
               to_case=lambda v, m: {'kind': 'rawtext', 'value': [v[0], v[1]], 'message': m})
    elif kind == 'mixed':
        # strings, char immediates and const byte[] elements of the same values in one program; this worker process
        # renders chars before strings (mixed 1) or strings before chars (mixed 0) for the first time, then both orders
        k = desc[1]
        quotes = [0x27, 0x22, 0x5c]
        groups = [quotes, list(reversed(quotes)), [0x22], [0x27]] + [list(range(a, a + 16)) for a in range(0, 256, 16)]
        if k == 1:
            m = check_chars(stats, quotes + [0x41], 'named', 2)
            if m:
                stats.violation({'kind': 'chars', 'value': ['named', 2], 'message': m, 'signature': 'mixed:chars-first'})
        for ws in (2, 4):
            for gi, g in enumerate(groups):
                for sstyle, cstyle in (('raw', 'raw'), ('named', 'named'), ('hex', 'raw'), ('raw', 'hex')):
                    if (sstyle == 'raw' or cstyle == 'raw') and any(b < 0x20 or b > 0x7e for b in g):
                        vals = [b for b in g if 0x20 <= b <= 0x7e]
                    else:
                        vals = g
                    if not vals:
                        continue
                    for order in ((k, 1 - k) if gi < 4 else ((gi + k) % 2,)):
                        m = check_mixed(stats, vals, sstyle, cstyle, ws, order)
                        if m:
                            stats.violation({'kind': 'mixed', 'value': [vals, sstyle, cstyle, ws, order], 'message': m, 'signature': 'mixed:%s:%s' % (sstyle, cstyle)})
        if k == 0:
            m = check_chars(stats, quotes + [0x41], 'named', 2)
            if m:
                stats.violation({'kind': 'chars', 'value': ['named', 2], 'message': m, 'signature': 'mixed:chars-last'})
        else:
            m = check_strings(stats, [b'"', b"'", b'\\', b'a"b\'c'], 'named', 2)
            if m:
                stats.violation({'kind': 'strings', 'value': [[b'"'.hex(), b"'".hex(), b'\\'.hex(), b'a"b\'c'.hex()], 'named', 2], 'message': m, 'signature': 'mixed:strings-last'})
        stats.exhaustive = True
        stats.sample({'kind': 'same bytes as string content, char immediates and const byte[] elements in one program', 'groups': len(groups), 'order_first': k})
    elif kind == 'chars':
        for ws in (2, 3):
            for style in ('hex', 'named', 'raw'):
                m = check_chars(stats, list(range(256)) if style == 'hex' else list(range(128)), style, ws)
                if m:
                    stats.violation({'kind': 'chars', 'value': [style, ws], 'message': m, 'signature': 'chars'})
        stats.exhaustive = True
        stats.sample({'kind': 'every char literal value', 'styles': ['hex', 'named', 'raw']})
    elif kind == 'pairs':
        k = desc[1]
        if tier == 'thorough':
            firsts = [a for a in range(256) if a % 4 == k]
            pairs = [(a, b) for a in firsts for b in range(256)]
            stats.exhaustive = True
        else:
            pairs = [(a, b) for a in SPECIAL for b in range(256) if b % 4 == k] + [(a, b) for a in range(256) if a % 4 == k for b in SPECIAL]
            pairs += [(rnd.randint(0, 255), rnd.randint(0, 255)) for _ in range(300)]
        for i in range(0, len(pairs), 256):
            chunk = [bytes(p) for p in pairs[i:i + 256]]
            style = ['hex', 'named', 'raw'][(i // 256) % 3]
            m = check_strings(stats, chunk, style, 2)
            if m:
                stats.violation({'kind': 'strings', 'value': [[c.hex() for c in chunk], style, 2], 'message': m, 'signature': 'pairs'})
        stats.sample({'kind': 'two-byte strings', 'n': len(pairs), 'first': [bytes(p).hex() for p in pairs[:5]]})
    elif kind == 'rand_strings':
        strat = st.tuples(st.lists(st.binary(min_size=0, max_size=64), min_size=1, max_size=12),
                          st.sampled_from(['hex', 'named', 'raw']), st.sampled_from([2, 3, 4, 8]))

        def chk(v):
            strings, style, ws = v
            if stats.evaluations % 200 == 0:
                stats.sample({'kind': 'strings', 'strings': [s.hex() for s in strings[:3]], 'style': style, 'ws': ws})
            m = check_strings(stats, strings, style, ws)
            return ('rand_strings', m) if m else None

        search(strat, chk, seed=derive_seed(seed, 'C13', desc), max_examples=60 if tier == 'quick' else 600, stats=stats,
               to_case=lambda v, m: {'kind': 'strings', 'value': [[s.hex() for s in v[0]], v[1], v[2]], 'message': m})
    elif kind == 'arrays':
        el, k = desc[1], desc[2]
        lengths = list(range(0, 41))
        for ws in ((2, 4, 6) if k == 0 else (3, 8, 5)):
            pool = boundary_elems(el, ws, rnd)
            batch = []
            forms = []
            for n in lengths:
                vals = [pool[rnd.randrange(len(pool))] for _ in range(n)]
                batch.append(vals)
                forms.append(FORMS[(n + k) % len(FORMS)])
                if n and n % 5 == 0:
                    # siblings: zero/false-padded, prefix and identical copies (aliasing / sharing bugs)
                    zero = {'int': 0, 'byte': 0, 'bool': False, 'string': b''}[el]
                    batch += [vals + [zero] * rnd.randint(1, 7), vals[:-1], list(vals), vals + [zero] * rnd.randint(8, 24), [zero] * (8 + n // 3)]
                    forms += [forms[-1], FORMS[rnd.randrange(5)], forms[-1], FORMS[rnd.randrange(5)], FORMS[rnd.randrange(5)]]
                if len(batch) >= 12:
                    for spell in (0, 1):
                        m = check_arrays(stats, el, batch, forms, ws, spell)
                        if m:
                            stats.violation({'kind': 'arrays', 'value': [el, [[x.hex() if isinstance(x, bytes) else x for x in a] for a in batch], forms, ws, spell], 'message': m, 'signature': 'arrays:%s:%d' % (el, spell)})
                    batch, forms = [], []
            if batch:
                for spell in (0, 1):
                    m = check_arrays(stats, el, batch, forms, ws, spell)
                    if m:
                        stats.violation({'kind': 'arrays', 'value': [el, [[x.hex() if isinstance(x, bytes) else x for x in a] for a in batch], forms, ws, spell], 'message': m, 'signature': 'arrays:%s:%d' % (el, spell)})
        stats.sample({'kind': 'const arrays', 'el': el, 'lengths': '0..40', 'forms': FORMS})
    return stats


def replay(case):
    st_ = Stats()
    v = case['value']
    if case['kind'] == 'strings':
        return check_strings(st_, [bytes.fromhex(s) for s in v[0]], v[1], v[2])
    if case['kind'] == 'rawtext':
        return check_raw_text(st_, v[0], v[1])
    if case['kind'] == 'mixed':
        return check_mixed(st_, v[0], v[1], v[2], v[3], v[4])
    if case['kind'] == 'rawchars':
        return check_raw_chars(st_, v[0], v[1])
    if case['kind'] == 'chars':
        return check_chars(st_, list(range(256)) if v[0] == 'hex' else list(range(128)), v[0], v[1])
    if case['kind'] == 'arrays':
        el = v[0]

        def back(x):
            if el == 'string':
                return bytes.fromhex(x)
            return tuple(x) if isinstance(x, list) else x
        return check_arrays(st_, el, [[back(x) for x in a] for a in v[1]], v[2], v[3], v[4] if len(v) > 4 else 0)
    return 'unknown replay kind'
