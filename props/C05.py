"""C05 - runtime faults are detected exactly, first, and terminally."""
import itertools
import random

from harness.runner import Stats
from harness.hyp import Discard
from harness.execute import S0
from harness.progcase import check_source_program
import svm

PROPERTY = 'C05'
RULE = ('Probe grid: fault kind {division, modulo (also compound /= %=), index out of range, bad dynamic length, return from a '
        'preemptive defeat function into unavoidable defeat; division/modulo by a compile-time constant that is zero only after wrapping to the word size} x element type {int, byte, bool, string element, string} x storage '
        '{local literal, local dynamic array, mutable global, const global, parameter bound to const-section / state-constant / '
        'mutable storage, argv array, argv string} x access form {read, write, compound + - * / %, read in condition, in an '
        'argument list} x form of the index / length expression {parameter, computed, global, array element, narrowed to byte} x operand from argv over a boundary grid (index -1, 0, len-1, len, len+1, MAX, MIN, -len; divisor 0, '
        '+-1, MIN, MAX; length -9..-1, 0, 1, 8, too-large, MAX, MIN) x word sizes {2,3,4}. Each probe prints a marker, sets '
        'canaries (a local, a neighbouring array, a global), performs the one fault-prone operation with side-effect-free '
        'operands, then prints a marker and the canaries. Oracle: the reference interpreter (through the independent parser '
        'and typechecker) decides whether and which fault occurs; the VM event stream must be identical: output prefix, then '
        'exactly flag K, flag error, nothing after - and no fault flag when the reference raises none (biconditional). "Before '
        'the operation has any effect": a replay monitor checks that between the last output byte and the fault flag nothing '
        'is stored into the array region below ap or into global data. Non-trivial: operand within +-1 of the accept/reject '
        'boundary. Distinct by (probe, operand, word size).')
ASSUMPTIONS = ['verification Sphinx VM (svm)', 'reference interpreter + ref/parse.py + ref/types.py',
               'one fault source per probe statement (order among several is undocumented)']
MIN_NONTRIVIAL = 300

FAULTS = {'stack_overflow', 'division_by_zero', 'out_of_bounds', 'nonlocal_preempt'}
L = 3
ELEMS = {
    'int': ('int', ['11', '22', '33'], '7'),
    'byte': ('byte', ["'a'", "'b'", "'c'"], "'z'"),
    'bool': ('bool', ['true', 'false', 'true'], 'false'),
    'string': ('string', ['"p"', '"qq"', '""'], '"w"'),
}
SHOW = {'int': 'write(%s);', 'byte': 'write(%s is int);', 'bool': 'write(%s);', 'string': 'write(%s);'}
CANARY_DECL = 'int c1 = 77; int[] cz = [5, 6];'
CANARY_SHOW = "write('A'); write(c1); write(cz[0]); write(cz[1]); write(gc);"
GLOBAL_CANARY = 'int gc = 99;\n'


def access_stmt(form, el, arr_name, idx):
    ty, vals, newv = ELEMS[el]
    tgt = '%s[%s]' % (arr_name, idx)
    if form == 'read':
        return SHOW[el] % tgt
    if form == 'write':
        return '%s = %s;' % (tgt, newv)
    if form == 'write_call':
        # the right-hand side has an effect: an out-of-range index must be reported before it happens
        return '%s = mk_%s();' % (tgt, el)
    if form.startswith('compound'):
        return '%s %s= %s;' % (tgt, form[8:], '3' if el == 'int' else "'\\x02'")
    if form == 'cond':
        return "if (%s == %s) { write('=');} else { write('#'); }" % (tgt, vals[0]) if el != 'string' else \
            "if (%s) { write('=');} else { write('#'); }" % tgt
    if form == 'arg':
        return 'show(%s);' % tgt
    raise ValueError(form)


# forms of the index / length expression: the same value reaches the check as a parameter, a computed int, a global,
# an array element, and narrowed to byte (then only the low byte decides whether the fault occurs)
IDX_FORMS = ['i', 'i + z', 'gi', 'IX[1]', '(i + z) is byte', '(gi * 1) is byte']
LEN_FORMS = ['n', 'n + z', 'gn', '(n + z) is byte', 'LN[0] is byte']


def index_probes():
    """-> list of (name, source, argv builder(index) -> vals)"""
    out = []
    for el in ('int', 'byte', 'bool', 'string'):
        ty, vals, newv = ELEMS[el]
        lit = '[' + ', '.join(vals) + ']'
        helper = 'empty show(%s x) { %s }\n' % (ty, SHOW[el] % 'x') + '%s mk_%s() { write(\'!\'); gc = gc + 1; return %s; }\n' % (ty, el, newv)
        forms = ['read', 'cond', 'arg', 'write', 'write_call']
        if el in ('int', 'byte'):
            forms += ['compound+', 'compound-', 'compound*', 'compound/', 'compound%']
        for form in forms:
            writes = form in ('write', 'write_call') or form.startswith('compound')
            storages = ['local_literal', 'local_hoisted_const', 'vla', 'global_mut', 'param_from_mut', 'param_rw']
            if not writes:
                storages += ['global_const', 'param_from_const', 'const_param_from_mut']
            if el in ('int', 'byte'):
                storages.append('argv')
            if el == 'string' and not writes:
                storages.append('argv')
            for stg, ixf in [(stg, ixf) for stg in storages
                             for ixf in (IDX_FORMS if stg in ('local_literal', 'vla', 'global_mut', 'argv') else ['i'])]:
                glob = GLOBAL_CANARY + helper
                sig = 'int i'
                body = ''
                call = None
                stmt = access_stmt(form, el, 'A', ixf)
                if 'gi' in ixf:
                    glob += 'int gi = 0;\n'
                    stmt = 'gi = i; ' + stmt
                if 'z' in ixf:
                    stmt = 'int z = 0; ' + stmt
                if 'IX' in ixf:
                    stmt = 'int[] IX = [5, i]; ' + stmt
                if stg == 'local_literal':
                    body = '%s x0 = %s; %s[] A = [x0, %s, %s];' % (ty, vals[0], ty, vals[1], vals[2])
                elif stg == 'local_hoisted_const':
                    if writes:
                        body = '%s[] A = %s;' % (ty, lit)
                    else:
                        body = 'const %s[] A = %s;' % (ty, lit)
                elif stg == 'vla':
                    body = '%s A[%d]; A[0] = %s; A[1] = %s; A[2] = %s;' % (ty, L, vals[0], vals[1], vals[2])
                elif stg == 'global_mut':
                    glob += '%s[] A = %s;\n' % (ty, lit)
                elif stg == 'global_const':
                    glob += 'const %s[] A = %s;\n' % (ty, lit)
                elif stg in ('param_from_mut', 'param_rw', 'param_from_const', 'const_param_from_mut'):
                    pconst = stg in ('param_from_const', 'const_param_from_mut')
                    if stg == 'param_rw' and not writes:
                        pconst = False
                    if stg == 'param_from_mut' and not writes:
                        pconst = True
                    glob += 'empty probe(%s%s[] A, int i) { %s }\n' % ('const ' if pconst else '', ty, stmt)
                    if stg == 'param_from_const':
                        glob += 'const %s[] G = %s;\n' % (ty, lit)
                        call = 'probe(G, i);'
                    elif stg in ('param_from_mut', 'const_param_from_mut'):
                        body = '%s x0 = %s; %s[] M = [x0, %s, %s];' % (ty, vals[0], ty, vals[1], vals[2])
                        call = 'probe(M, i);'
                    else:
                        glob += '%s[] G = %s;\n' % (ty, lit)
                        call = 'probe(G, i);'
                elif stg == 'argv':
                    sig = 'int i, %s%s[] A' % ('const ' if el == 'string' else '', ty)
                src = '%s\nempty @is_you(%s) {\n  %s\n  %s\n  write(\'B\');\n  %s\n  %s\n}\n' % (
                    glob, sig, CANARY_DECL, body, call or stmt, CANARY_SHOW)

                def mk(i, el=el, stg=stg):
                    if stg == 'argv':
                        arr_ = {'int': [11, 22, 33], 'byte': [97, 98, 99], 'string': [b'p', b'qq', b'']}[el]
                        return [i, arr_]
                    return [i]
                out.append(('index:%s:%s:%s%s' % (el, form, stg, '' if ixf == 'i' else ':' + ixf), src, mk))
    # arrays whose length sits at the byte boundary (255 / 256 elements), index of static type byte or int
    for el, zero_, show in (('int', '0', 'write(%s);'), ('byte', "'\\0'", 'write(%s is int);'), ('bool', 'false', 'write(%s);')):
        for n in (255, 256):
            for ixf in ('i', 'bi', '(i is byte)', 'bidx[0]'):
                for form in ('read', 'write'):
                    glob = GLOBAL_CANARY + '%s[] A = [%s];\n' % (el, ', '.join([zero_] * n))
                    pre = 'byte bi = i is byte; byte[] bidx = [i is byte, 1];'
                    tgt = 'A[%s]' % ixf
                    stmt = (show % tgt) if form == 'read' else '%s = %s; %s' % (tgt, {'int': '9', 'byte': "'9'", 'bool': 'true'}[el], show % tgt)
                    src = '%s\nempty @is_you(int i) {\n  %s\n  %s\n  write(\'B\');\n  %s\n  %s\n}\n' % (glob, CANARY_DECL, pre, stmt, CANARY_SHOW)
                    out.append(('index:big%d:%s:%s:%s' % (n, el, form, ixf), src, lambda i: [i]))
    # strings
    for stg in ('literal', 'local', 'global', 'argv', 'param', 'element', 'as_bytes'):
        for form in ('read', 'cond', 'arg'):
            glob = GLOBAL_CANARY + 'empty show(byte x) { write(x is int); }\n'
            sig = 'int i'
            body = ''
            s_ = 'S'
            if stg == 'literal':
                s_ = '"abc"'
            elif stg == 'local':
                body = 'string S = "zz"; S = "abc";'
            elif stg == 'global':
                glob += 'string S = "abc";\n'
            elif stg == 'argv':
                sig = 'int i, string S'
            elif stg == 'param':
                glob += 'byte at(string S, int i) { return S[i]; }\n'
            elif stg == 'element':
                body = 'const string[] SS = ["q", "abc"];'
                s_ = 'SS[1]'
            elif stg == 'as_bytes':
                body = 'const byte[] S = "abc";'
            tgt = 'at("abc", i)' if stg == 'param' else '%s[i]' % s_
            stmt = {'read': 'write(%s is int);' % tgt, 'cond': "if (%s == 'a') { write('='); } else { write('#'); }" % tgt,
                    'arg': 'show(%s);' % tgt}[form]
            src = '%s\nempty @is_you(%s) {\n  %s\n  %s\n  write(\'B\');\n  %s\n  %s\n}\n' % (glob, sig, CANARY_DECL, body, stmt, CANARY_SHOW)
            out.append(('strindex:%s:%s' % (stg, form), src, (lambda i, stg=stg: [i, b'abc'] if stg == 'argv' else [i])))
    return out


def division_probes():
    out = []
    for op in ('/', '%'):
        for lty in ('int', 'byte'):
            for dty in ('int', 'byte'):
                for pos in ('value', 'cond', 'arg', 'compound_local', 'compound_global', 'compound_elem', 'decl', 'ret', 'index'):
                    if pos.startswith('compound') and lty == 'byte' and dty == 'int':
                        continue    # int result into byte: type error
                    glob = GLOBAL_CANARY + 'empty show(int x) { write(x); }\nint gx = 100;\nint divide(int a, int b) { return a %s b; }\n' % op
                    dexpr = 'd' if dty == 'int' else '(d is byte)'
                    lhs = 'x' if lty == 'int' else 'bx'
                    body = "int x = 100; byte bx = 'd'; int[] arr3 = [100, 50, 25]; byte[] barr = ['d', 'e'];"
                    e = '%s %s %s' % (lhs, op, dexpr)
                    if pos == 'value':
                        stmt = 'write(%s);' % e
                    elif pos == 'cond':
                        stmt = "if (%s > 1) { write('>'); } else { write('<'); }" % e
                    elif pos == 'arg':
                        stmt = 'show(%s);' % e
                    elif pos == 'decl':
                        stmt = 'int q = %s; write(q);' % e
                    elif pos == 'ret':
                        stmt = 'write(divide(%s, %s));' % (lhs, dexpr)
                    elif pos == 'index':
                        stmt = 'write(arr3[(%s) - (%s)]);' % (e, e)
                    elif pos == 'compound_local':
                        stmt = '%s %s= %s; write(%s);' % (lhs, op, dexpr, lhs if lty == 'int' else lhs + ' is int')
                    elif pos == 'compound_global':
                        if lty == 'byte':
                            continue
                        stmt = 'gx %s= %s; write(gx);' % (op, dexpr)
                    else:
                        tgt = 'arr3[1]' if lty == 'int' else 'barr[1]'
                        stmt = '%s %s= %s; write(%s);' % (tgt, op, dexpr, tgt if lty == 'int' else tgt + ' is int')
                    src = '%s\nempty @is_you(int d) {\n  %s\n  %s\n  write(\'B\');\n  %s\n  %s\n}\n' % (glob, CANARY_DECL, body, stmt, CANARY_SHOW)
                    out.append(('div:%s:%s:%s:%s' % (op, lty, dty, pos), src, lambda d: [d]))
    return out


def constant_divisor_probes():
    """The divisor is a compile-time constant that is zero *on the machine* at some word sizes (a non-zero multiple of
    2^16 / 2^24 / 2^32, written as a literal or folded from small literals); the dividend comes from argv."""
    out = []
    consts = [('512', ''), ('1024', ''), ('257', ''), ('255', ''), ('65536', ''), ('131072', ''), ('(-65536)', ''), ('16777216', ''), ('4294967296', ''), ('(K * K)', 'const int K = 256;'),
              ('(K * K)', 'const int K = 4096;'), ('(K * K * K * K)', 'const int K = 256;'), ('65537', ''), ('(K * K + 1)', 'const int K = 256;'),
              ('256', ''), ('(K - K + 3)', 'const int K = 256;')]
    for op in ('/', '%'):
        for ci, (c, cdecl) in enumerate(consts):
            for pos in ('value', 'compound_local', 'compound_elem', 'cond', 'compound_byte_local', 'compound_byte_elem', 'compound_byte_global'):
                glob = GLOBAL_CANARY + cdecl + '\nbyte gb = \'d\';\n'
                body = 'int x = d; int[] arr3 = [100, d, 25]; byte bx = (d + 100) is byte; byte[] barr = [\'d\', (d + 50) is byte];'
                if pos.startswith('compound_byte') and c in ('(K * K)', '(K * K * K * K)', '(K * K + 1)', '(K - K + 3)'):
                    continue        # a const *variable* is not coercible to byte: only literal divisors apply to byte targets
                if pos == 'compound_byte_local':
                    stmt = 'bx %s= %s; write(bx is int);' % (op, c)
                elif pos == 'compound_byte_elem':
                    stmt = 'barr[1] %s= %s; write(barr[1] is int);' % (op, c)
                elif pos == 'compound_byte_global':
                    stmt = 'gb %s= %s; write(gb is int);' % (op, c)
                if pos.startswith('compound_byte'):
                    pass
                elif pos == 'value':
                    stmt = 'write(x %s %s);' % (op, c)
                elif pos == 'cond':
                    stmt = "if ((x %s %s) > 1) { write('>'); } else { write('<'); }" % (op, c)
                elif pos == 'compound_local':
                    stmt = 'x %s= %s; write(x);' % (op, c)
                else:
                    stmt = 'arr3[1] %s= %s; write(arr3[1]);' % (op, c)
                src = '%s\nempty @is_you(int d) {\n  %s\n  %s\n  write(\'B\');\n  %s\n  %s\n}\n' % (glob, CANARY_DECL, body, stmt, CANARY_SHOW)
                out.append(('cdiv:%s:%d:%s' % (op, ci, pos), src, lambda d: [d]))
    return out


def constant_index_probes():
    """Index and data are both compile-time constants (literal, folded, const variable): the lookup may be folded, left to
    the run-time check, or - where it faults - rejected at compile time, but it must behave like the run-time lookup.
    The operand from argv only selects nothing (kept for uniformity); each probe has its constant index in the name."""
    out = []
    datas = [('"abc"', 3, 'write(%s is int);'), ('cs', 2, 'write(%s is int);'), ('gs', 4, 'write(%s is int);'), ('[10, 20, 30]', 3, 'write(%s);'),
             ('gt', 2, 'write(%s);'), ("['x', 'y']", 2, 'write(%s is int);'), ('lt', 3, 'write(%s);'), ('[true, false, true]', 3, 'write(%s);'), ('""', 0, 'write(%s is int);')]
    for dsrc, n, show in datas:
        for isrc in ('-1', '0 - 1', '1 - 2', 'KM', '-%d' % max(n, 1), '0 - %d' % (n + 1), str(n), '%d + 1' % n, 'KN', str(max(n - 1, 0)), '0', '255', '256', '-256'):
            glob = GLOBAL_CANARY + 'const string gs = "wxyz"; const int[] gt = [7, 8]; const int KM = -1; const int KN = %d;\n' % n
            body = 'const string cs = "ab"; const int[] lt = [1, 2, 3];'
            stmt = show % ('%s[%s]' % (dsrc, isrc))
            src = '%s\nempty @is_you(int i) {\n  %s\n  %s\n  write(\'B\');\n  %s\n  %s\n}\n' % (glob, CANARY_DECL, body, stmt, CANARY_SHOW)
            out.append(('cidx:%s:%s' % (dsrc, isrc), src, lambda i: [i]))
    return out


def length_probes():
    out = []
    for el in ('int', 'byte', 'bool', 'string'):
        for where, lf in [(w, lf) for w in ('main', 'callee', 'nested', 'loop') for lf in (LEN_FORMS if w in ('main', 'loop') else ['n'])]:
            glob = GLOBAL_CANARY
            pre = ''
            if 'gn' in lf:
                glob += 'int gn = 0;\n'
                pre += 'gn = n; '
            if 'z' in lf:
                pre += 'int z = 0; '
            if 'LN' in lf:
                pre += 'int[] LN = [n, 3]; '
            decl = '%s%s A[%s]; write(A.length);' % (pre, el, lf)
            if where == 'callee':
                glob += 'empty alloc(int n) { %s }\n' % decl
                stmt = 'alloc(n);'
            elif where == 'nested':
                stmt = 'if (n != 12345) { int[] pad = [1, 2]; { %s } }' % decl
            elif where == 'loop':
                stmt = 'for (int k = 0; k < 2; k += 1) { %s }' % decl
            else:
                stmt = decl
            src = '%s\nempty @is_you(int n) {\n  %s\n  write(\'B\');\n  %s\n  %s\n}\n' % (glob, CANARY_DECL, stmt, CANARY_SHOW)
            out.append(('length:%s:%s%s' % (el, where, '' if lf == 'n' else ':' + lf), src, lambda n: [n]))
    return out


def preempt_probes():
    out = []
    bodies = {
        'if_false': 'if (false) { preempt { } }',
        'else': 'if (x > 0) { write(\'p\'); } else { preempt { write(\'q\'); } }',
        'else_if': 'if (x > 5) { write(\'p\'); } else if (x > 9) { preempt { } }',
        'for': 'for (int k = 0; k < 0; k += 1) { preempt { } }',
        'while': 'while (x > 100) { preempt { } }',
        'nested_block': '{ { preempt { write(\'r\'); } } }',
        'plain': "preempt { write('t'); }",
        'after_return': 'if (x > 0) { return; } preempt { }',
    }
    for bname, b in bodies.items():
        for handler in ('undo', 'stop'):
            for later in ('defeat', 'cond_defeat', 'none', 'call_defeat', 'plain_then_defeat', 'plain_first'):
                glob = GLOBAL_CANARY + ('empty !pre(int x) { write(\'f\'); %s }\nempty !plain(int x) { !truth_is_defeat(x > 0); }\n'
                                        'empty !quiet(int x) { write(\'q\'); }\n' % b)
                # plain_then_defeat: a defeat function *without* preempt, generated after the preemptive one, returns into
                # unavoidable defeat - that is legal and must not raise nonlocal_preempt; plain_first: the other generation order
                after = {'defeat': '!is_defeat();', 'cond_defeat': '!truth_is_defeat(d > 0);', 'none': '', 'call_defeat': '!plain(d);',
                         'plain_then_defeat': '!quiet(d); !truth_is_defeat(d > 0);', 'plain_first': ''}[later]
                stmt = "try { write('1'); !pre(d); write('2'); %s write('3'); } %s { write('H'); }" % (after, handler)
                if later == 'plain_first':
                    stmt = "try { write('0'); !quiet(d); write('1'); !truth_is_defeat(d > 5); write('2'); } %s { write('h'); } " % handler + \
                        "try { write('1'); !pre(d); write('2'); !quiet(d); !truth_is_defeat(d > 0); write('3'); } %s { write('H'); }" % handler
                src = '%s\nempty @is_you(int d) {\n  %s\n  write(\'B\');\n  %s\n  %s\n}\n' % (glob, CANARY_DECL, stmt, CANARY_SHOW)
                out.append(('preempt:%s:%s:%s' % (bname, handler, later), src, lambda d: [d]))
    return out


def grid(kind, ws):
    hi = (1 << (8 * ws - 1)) - 1
    lo = -hi - 1
    if kind.startswith(('index', 'strindex')):
        return [-1, 0, 1, L - 1, L, L + 1, hi, lo, -L, 254, 255, 256, 257, hi - 1, lo + 1, 256 + L - 1, 256 + L, -256, -254, 511, 512]
    if kind.startswith('cidx'):
        return [0]
    if kind.startswith('cdiv'):
        return [0, 1, -1, 100, hi, lo]
    if kind.startswith('div'):
        return [0, 1, -1, 2, hi, lo, 256, 255, -256]
    if kind.startswith('length'):
        full = (1 << (8 * ws)) // ws        # smallest length whose size in bytes wraps all the way round (only representable for ws >= 3)
        return [-9, -8, -7, -2, -1, 0, 1, 7, 8, 9, hi, lo, hi // ws, hi // ws + 1, lo + 1, 20000, 256, 257, 263, -256, -250, 511] + \
            [v for v in (full, full + 1, full + 2, full + 40, full + 400, 2 * full // 2 + 7, (1 << (8 * ws)) // 8 + 1, (1 << (8 * ws)) // 8 * 3 + 2) if v <= hi]
    return [0, 1]


def near_boundary(kind, v, ws):
    hi = (1 << (8 * ws - 1)) - 1
    if kind.startswith('index:big'):
        n = int(kind.split(':')[1][3:])
        return v in (-1, 0, n - 1, n, n + 1, 255, 256)
    if kind.startswith(('index', 'strindex')):
        return v in (-1, 0, L - 1, L, L + 1)
    if kind.startswith('div'):
        return v in (0, 1, -1, 256, -256)
    if kind.startswith('length'):
        return v in (-1, 0, 1, -8, -7, hi // ws, hi // ws + 1)
    return True


class EffectMonitor(svm.NullMonitor):
    """No store into the array region below ap or into global data between the last output and the fault flag."""

    def __init__(self, prog):
        self.prog = prog
        self.ap = prog.labels['ap'][1]
        self.stack_start = prog.labels['stack_start'][1]
        self.stack_end = prog.labels['stack_end'][1]
        self.pending = []
        self.bad = None
        self.done = False

    def on_event(self, pc, ev):
        if self.done:
            return
        if ev[0] == 'flag' and ev[1] in FAULTS:
            self.done = True
            if self.pending:
                self.bad = self.pending[0]
        elif ev[0] == 'out':
            self.pending = []

    def on_store(self, pc, addr, size, base, val, off=None):
        if self.done:
            return
        ws = self.vm.ws
        ap = int.from_bytes(self.mem[self.ap:self.ap + ws], 'little')
        if addr >= self.stack_end or (self.stack_start <= addr < ap and base != ('s', self.ap)):
            self.pending.append((pc, addr, self.prog.src[pc], self.prog.stmt_at.get(pc)))


def check_probe(stats, name, src, vals, ws, operand):
    v = check_source_program(src, vals, ws, S=S0)
    stats.evaluated()
    kind = name.split(':')[0]
    stats.cls('probes_' + kind)
    stats.cls('ref_' + v.ref.kind)
    if near_boundary(name, operand, ws):
        stats.nt('%s|%r|%d' % (name, operand, ws))
    if v.status != 'agree' and v.sig == 'rejected' and kind == 'cidx' and v.ref.kind.startswith('fault:'):
        # a constant lookup that would fault at run time may be rejected at compile time (property C14 allows exactly that)
        stats.cls('constant_fault_rejected_at_compile_time')
        return None
    if v.status != 'agree':
        return ('%s:%s' % (kind, v.sig), 'probe %s ws=%d operand=%r: %s\n%s' % (name, ws, operand, v.msg, src))
    if v.ref.kind.startswith('fault:') and v.run.res is not None:
        m = EffectMonitor(v.run.prog)
        svm.VM(v.run.prog).replay(v.run.res.decisions, m, max_steps=v.run.res.steps + 10)
        stats.cls('effect_checks')
        if m.bad:
            return ('%s:effect' % kind, 'probe %s ws=%d operand=%r: store to %d by `%s` (%s) before the fault was raised\n%s' % (
                name, ws, operand, m.bad[1], m.bad[2], m.bad[3], src))
    return None


ALL = None


def all_probes():
    global ALL
    if ALL is None:
        ALL = index_probes() + division_probes() + constant_divisor_probes() + constant_index_probes() + length_probes() + preempt_probes()
    return ALL


def shards(tier):
    return [(k, 16) for k in range(16)]


def run_shard(desc, seed, tier):
    k, n = desc
    stats = Stats()
    probes = all_probes()
    rnd = random.Random(seed * 7919 + k)
    for pi, (name, src, mk) in enumerate(probes):
        if pi % n != k:
            continue
        for ws in (2, 3, 4):
            g = grid(name, ws)
            if tier == 'quick':
                # all boundary-adjacent operands + a seeded quarter of the rest
                g = [x for x in g if near_boundary(name, x, ws) or rnd.random() < 0.25]
            for operand in g:
                try:
                    m = check_probe(stats, name, src, mk(operand), ws, operand)
                except Discard as d:
                    stats.discard(d.why)
                    continue
                if m:
                    stats.violation({'kind': 'probe', 'value': [name, ws, operand], 'message': m[1], 'signature': m[0]})
        if pi % 60 == k:
            stats.sample({'probe': name, 'source': src})
    stats.exhaustive = tier == 'thorough'
    stats.extra['probe_templates'] = len([1 for pi in range(len(probes)) if pi % n == k])
    return stats


def replay(case):
    name, ws, operand = case['value']
    for n2, src, mk in all_probes():
        if n2 == name:
            try:
                m = check_probe(Stats(), name, src, mk(operand), ws, operand)
            except Discard:
                return None
            return m[1] if m else None
    return 'unknown probe ' + name
