"""C17 - the write family prints canonically for every value."""
import itertools

from hypothesis import strategies as st

from harness.runner import Stats, case_hash
from harness.hyp import search, derive_seed, Discard
from harness.execute import execute, find_smin, S0
from harness import hidc_driver as H

PROPERTY = 'C17'
RULE = ('write/writeln(int): every 16-bit value exhaustively (batches passed as argv int array, alternating '
        'write/writeln forms), boundary grid + Hypothesis-drawn values at 24/32/48/64 bit; write(int) of compile-time constants in ~40 spellings (decimal / hex / octal / binary / separators, character-born, bool-born, const variables, folded arithmetic, lengths of constants); write(bool) from every bool '
        'source incl. bools cast from run-time ints / bytes of every bit pattern class (negative, zero low byte, sign bit only), stored, negated, passed and returned; write(byte) all 256 values; write(string)/write(byte array) with lengths 0..64 and arbitrary byte '
        'contents in every storage form (const global, hoisted literal, stack literal, mutable local, byte a[n], '
        'parameter R/RC/RW, argv array, string->const byte[] conversion of variables / literals / const strings, argv string), also placed around and above address '
        '0x8000 of the const and state sections at 16 bit, and next to numerically equal bool / int / string constants used before or after the call; each call site placed between '
        'canaries (int/byte/bool locals, a byte array, an int array) and run at a generous stack and at the minimal '
        'stack size S_min found by binary search. Oracle: Python str(int) / exact bytes / canaries unchanged. '
        'Non-trivial: ints whose digit count differs from a neighbour (v-1 or v+1), 0, -1, MIN, MAX; arrays of length '
        '0, 1, 64; every run at S = S_min. Distinct by hash of (form, value(s), word size, stack size).')
ASSUMPTIONS = ['verification Sphinx VM (svm) as calibrated in DESIGN.md 2.1', 'Python int/str as decimal oracle']
MIN_NONTRIVIAL = 50

WORD_SIZES = (2, 3, 4, 8, 6)


def signed(v, ws):
    bits = 8 * ws
    v &= (1 << bits) - 1
    return v - (1 << bits) if v >> (bits - 1) else v


def int_nontrivial(v, ws):
    lo, hi = -(1 << (8 * ws - 1)), (1 << (8 * ws - 1)) - 1
    if v in (0, -1, lo, hi):
        return True
    return len(str(abs(v))) != len(str(abs(v - 1))) or len(str(abs(v))) != len(str(abs(v + 1)))


INT_SRC = {
    'writeln': 'empty @is_you(const int[] a) { for (int i = 0; i < a.length; i += 1) { writeln(a[i]); } }',
    'write': 'empty @is_you(int[] a) { for (int i = 0; i < a.length; i += 1) { write(a[i]); write(\';\'); } }',
    'local': 'empty @is_you(const int[] a) { for (int i = 0; i < a.length; i += 1) { int v = a[i]; write(v); write(\' \'); } }',
    'expr': 'empty @is_you(const int[] a) { for (int i = 0; i < a.length; i += 1) { write(a[i] + 0); write(\'\\n\'); } }',
}
INT_SEP = {'writeln': b'\n', 'write': b';', 'local': b' ', 'expr': b'\n'}


def check_int_batch(stats, form, ws, values):
    """values: python ints in signed range for ws.  -> None | (sig, msg)"""
    src = INT_SRC[form]
    r = execute(src, [str(v) for v in values], ws=ws, S=S0, budget=400 * len(values) * (ws + 2) + 100000)
    stats.evaluated(len(values))
    exp = b''.join(str(v).encode() + INT_SEP[form] for v in values)
    for v in values:
        if int_nontrivial(v, ws):
            stats.nt('int:%d:%d:%s' % (ws, v, form))
    stats.cls('int_ws%d' % ws, len(values))
    if r.out != exp or not r.won:
        # locate first differing value
        got = r.out.split(INT_SEP[form])
        bad = None
        for k, v in enumerate(values):
            if k >= len(got) or got[k] != str(v).encode():
                bad = (v, got[k] if k < len(got) else None)
                break
        return ('int', 'write(int) form=%s ws=%d: value %r printed as %r; flags=%r outcome=%s' % (
            form, ws, bad and bad[0], bad and bad[1], r.flags, r.outcome))
    return None


def boundary_ints(ws):
    bits = 8 * ws
    lo, hi = -(1 << (bits - 1)), (1 << (bits - 1)) - 1
    vals = {0, 1, -1, 2, 7, 8, 9, 10, 11, 99, 100, 101, 127, 128, 255, 256, 257, -9, -10, -11, -99, -100,
            lo, lo + 1, lo + 2, hi, hi - 1, hi - 2, lo // 10, lo // 10 - 1, lo // 10 + 1, hi // 10, hi // 10 + 1}
    k = 1
    while k <= hi:
        vals |= {k, k - 1, k + 1, -k, -k + 1, -k - 1}
        k *= 10
    k = 1
    while k <= hi:
        vals |= {k, k - 1, -k, -k - 1}
        k *= 2
    return sorted(v for v in vals if lo <= v <= hi)


# ---------------------------------------------------------------------------
# byte arrays / strings in storage forms, between canaries
# ---------------------------------------------------------------------------

def src_bytes_list(data):
    return '[' + ', '.join(str(b) for b in data) + ']'


def src_string(data):
    return '"' + ''.join('\\x%02x' % b for b in data) + '"'


CANARY_DECL = ('int c1 = 12345; byte c2 = 201; bool c3 = true; byte[] ca = [1, 2, 250, 4]; '
               'int[] ci = [1000, -2000, 3000];')
CANARY_PRINT = ('write(\'|\'); write(c1); write(\',\'); write(c2 is int); write(\',\'); write(c3); '
                'for (int k = 0; k < ca.length; k += 1) { write(\',\'); write(ca[k] is int); } '
                'for (int k = 0; k < ci.length; k += 1) { write(\',\'); write(ci[k]); }')
CANARY_OUT = b'|12345,201,true,1,2,250,4,1000,-2000,3000'

# each form: (needs, builder(data, ln) -> (globals, helpers, entry_sig, args, setup, call))
# `ln` selects write or writeln


def form_source(form, data, ln, pad=None):
    w = 'writeln' if ln else 'write'
    n = len(data)
    L = src_bytes_list(data)
    glob = ''
    helpers = ''
    sig = ''
    args = []
    setup = ''
    if form == 'const_global':
        glob = 'const byte[] g = %s;' % L
        call = '%s(g);' % w
    elif form == 'mut_global':
        glob = 'byte[] g = %s;' % L
        call = '%s(g);' % w
    elif form == 'hoisted_literal':
        if n == 0:
            raise Discard('empty literal is type-ambiguous')
        call = '%s(%s);' % (w, L)
    elif form == 'stack_literal':
        if n == 0:
            raise Discard('empty literal is type-ambiguous')
        setup = 'byte x0 = %d;' % data[0]
        call = '%s([x0%s]);' % (w, ''.join(', %d' % b for b in data[1:]))
    elif form == 'const_local':
        if n == 0:
            raise Discard('empty literal is type-ambiguous')
        setup = 'const byte[] m = %s;' % L
        call = '%s(m);' % w
    elif form == 'mut_local':
        if n == 0:
            raise Discard('empty literal is type-ambiguous')
        setup = 'byte[] m = %s;' % L
        call = '%s(m);' % w
    elif form == 'vla':
        glob = 'const byte[] g = %s;' % L if n else ''
        setup = 'byte m[%d];' % n
        if n:
            setup += ' for (int k = 0; k < %d; k += 1) { m[k] = g[k]; }' % n
        call = '%s(m);' % w
    elif form in ('param_RC', 'param_R', 'param_RW', 'param_RW_as_const'):
        if form == 'param_RC':
            glob = 'const byte[] g = %s;' % L
            helpers = 'empty f(const byte[] p) { %s(p); }' % w
            call = 'f(g);'
        elif form == 'param_R':
            if n == 0:
                raise Discard('empty literal is type-ambiguous')
            setup = 'byte x0 = %d; const byte[] m = [x0%s];' % (data[0], ''.join(', %d' % b for b in data[1:]))
            helpers = 'empty f(const byte[] p) { %s(p); }' % w
            call = 'f(m);'
        elif form == 'param_RW':
            glob = 'byte[] g = %s;' % L
            helpers = 'empty f(byte[] p) { %s(p); }' % w
            call = 'f(g);'
        else:
            glob = 'byte[] g = %s;' % L
            helpers = 'empty f(const byte[] p) { %s(p); }' % w
            call = 'f(g);'
    elif form == 'argv_mut':
        sig = 'byte[] a'
        args = [str(b) for b in data]
        call = '%s(a);' % w
    elif form == 'argv_const':
        sig = 'const byte[] a'
        args = [str(b) for b in data]
        call = '%s(a);' % w
    elif form == 'string_literal':
        call = '%s(%s);' % (w, src_string(data))
    elif form == 'string_global':
        glob = 'string g = %s;' % src_string(data)
        call = '%s(g);' % w
    elif form == 'string_local':
        setup = 'string s = "zz"; s = %s;' % src_string(data)
        call = '%s(s);' % w
    elif form == 'literal_as_bytes':
        call = '%s(%s is byte[]);' % (w, src_string(data))
    elif form == 'literal_to_const_param':
        helpers = 'empty f(const byte[] p) { %s(p); }' % w
        call = 'f(%s);' % src_string(data)
    elif form == 'literal_to_const_local':
        setup = 'const byte[] m = %s;' % src_string(data)
        call = '%s(m);' % w
    elif form == 'const_string_as_bytes':
        glob = 'const string gcs = %s;' % src_string(data)
        call = '%s(gcs is byte[]);' % w
    elif form == 'string_as_bytes':
        setup = 'string s = %s;' % src_string(data)
        call = '%s(s is byte[]);' % w
    elif form == 'string_to_const_bytes_var':
        setup = 'string s = %s; const byte[] b = s;' % src_string(data)
        call = '%s(b);' % w
    elif form == 'string_elem':
        setup = 'const string[] ss = ["q", %s];' % src_string(data)
        call = '%s(ss[1]);' % w
    elif form == 'string_ret':
        helpers = 'string f() { return %s; }' % src_string(data)
        call = '%s(f());' % w
    elif form == 'argv_string':
        try:
            text = bytes(data).decode('utf-8')
        except UnicodeDecodeError:
            raise Discard('argv string must be valid UTF-8')
        if '\x00' in text:
            raise Discard('NUL cannot be passed in argv')
        sig = 'string s'
        args = [text]
        call = '%s(s);' % w
    elif form == 'argv_string_array':
        try:
            text = bytes(data).decode('utf-8')
        except UnicodeDecodeError:
            raise Discard('argv string must be valid UTF-8')
        if '\x00' in text:
            raise Discard('NUL cannot be passed in argv')
        sig = 'const string[] a'
        args = ['x', text]
        call = '%s(a[1]);' % w
    else:
        raise AssertionError(form)
    first = ''
    after = ''
    if pad is not None and pad[0] == 'sibling':
        # constants of other element types that are numerically equal to the data (bools for 0/1 bytes, ints, a string with the
        # same bytes) live in the same program, used before or after the call: write(byte array) must not pick up their storage
        sib = ('const bool[] sbl = [%s]; const int[] sil = [%s]; string sst = %s; ' % (
            ', '.join('true' if b else 'false' for b in data), ', '.join(str(b) for b in data), src_string(data)) +
            'for (int k = 0; k < sbl.length; k += 1) { write(sbl[k]); write(sil[k]); } write(sst);')
        if pad[1] == 'before':
            first = sib
        else:
            after = sib
    if pad is not None and pad[0] == 'const':
        # a long string constant used first pushes every later constant up in the const section
        glob = 'string padS = "%s";\n' % ('x' * pad[1]) + glob
        first = 'if (padS.length == 0) { write(padS); }'
    src = '%s\n%s\nempty @is_you(%s) {\n  %s\n  %s\n  %s\n  write(\'<\'); %s write(\'>\');\n  %s\n  %s\n}\n' % (
        glob, helpers, sig, first, CANARY_DECL, setup, call, after, CANARY_PRINT)
    return src, args


FORMS = ['const_global', 'mut_global', 'hoisted_literal', 'stack_literal', 'const_local', 'mut_local', 'vla',
         'param_RC', 'param_R', 'param_RW', 'param_RW_as_const', 'argv_mut', 'argv_const', 'string_literal',
         'string_global', 'string_local', 'string_as_bytes', 'string_to_const_bytes_var', 'string_elem', 'literal_as_bytes',
         'literal_to_const_param', 'literal_to_const_local', 'const_string_as_bytes',
         'string_ret', 'argv_string', 'argv_string_array']


def check_bytes_case(stats, form, data, ln, ws, tight, pad=None):
    src, args = form_source(form, data, ln, pad)
    exp = b'<' + bytes(data) + (b'\n' if ln else b'') + b'>' + CANARY_OUT
    if pad is not None and pad[0] == 'sibling':
        sib_out = b''.join((b'true' if b else b'false') + str(b).encode() for b in data) + bytes(data)
        exp = (sib_out + exp) if pad[1] == 'before' else (b'<' + bytes(data) + (b'\n' if ln else b'') + b'>' + sib_out + CANARY_OUT)
    sizes = [S0 if pad is None or pad[0] != 'stack' else pad[1]]
    if pad is not None:
        stats.cls('placement_' + pad[0])
    if tight:
        smin = find_smin(src, args, ws)
        if smin is None:
            return ('bytes-overflow', 'form=%s overflows even at S0' % form)
        sizes.append(smin)
    for S in sizes:
        r = execute(src, args, ws=ws, S=S)
        stats.evaluated()
        stats.cls('bytes_form_' + form)
        is_tight = S != sizes[0]
        if is_tight:
            stats.cls('bytes_at_smin')
        if len(data) in (0, 1, 64) or is_tight or pad is not None:
            stats.nt('bytes:%s:%s:%d:%d:%d:%r' % (form, bytes(data).hex(), ln, ws, S, pad))
        if r.out != exp or not r.won:
            return ('bytes:' + form + (':smin' if is_tight else ''),
                    'form=%s ws=%d S=%d%s ln=%d pad=%r data=%r: got %r flags=%r outcome=%s, expected %r then win' % (
                        form, ws, S, ' (=S_min)' if is_tight else '', ln, pad, bytes(data), r.out, r.flags, r.outcome, exp))
    return None


# write(int) call site between canaries at S0 and S_min (F3 lives here)
def check_int_site(stats, v, ws, ln, arr_len, tight=True):
    w = 'writeln' if ln else 'write'
    fill = ''.join('m[%d] = %d; ' % (k, 65 + k) for k in range(arr_len))
    src = ('empty @is_you(int v) {\n  %s\n  byte m[%d]; %s\n  write(\'<\'); %s(v); write(\'>\'); write(m);\n  %s\n}\n'
           % (CANARY_DECL, arr_len, fill, w, CANARY_PRINT))
    exp = b'<' + str(v).encode() + (b'\n' if ln else b'') + b'>' + bytes(range(65, 65 + arr_len)) + CANARY_OUT
    sizes = [S0]
    if tight:
        smin = find_smin(src, [str(v)], ws)
        if smin is None:
            return ('intsite-overflow', 'overflows at S0')
        sizes.append(smin)
    for S in sizes:
        r = execute(src, [str(v)], ws=ws, S=S)
        stats.evaluated()
        stats.cls('int_site')
        if S != S0:
            stats.cls('int_site_at_smin')
            stats.nt('intsite:%d:%d:%d:%d:%d' % (v, ws, ln, arr_len, S))
        if r.out != exp or not r.won:
            return ('intsite' + (':smin' if S != S0 else ''),
                    'write(int) site v=%d ws=%d S=%d%s arr_len=%d: got %r flags=%r, expected %r then win' % (
                        v, ws, S, ' (=S_min)' if S != S0 else '', arr_len, r.out, r.flags, exp))
    return None


BOOL_SRC = """
bool gt = true; bool gf = false;
bool rt() { return true; } bool rf() { return false; }
empty @is_you(int one, int zero) {
    bool lt = one == 1; bool lf = zero == 1;
    bool[] ba = [lf, lt, true, false];
    bool va[3]; va[0] = lt; va[1] = lf; va[2] = one > zero;
    write(true); write(' '); write(false); write(' ');
    write(gt); write(' '); write(gf); write(' ');
    write(lt); write(' '); write(lf); write(' ');
    write(rt()); write(' '); write(rf()); write(' ');
    write(ba[0]); write(' '); write(ba[1]); write(' '); write(ba[2]); write(' '); write(ba[3]); write(' ');
    write(va[0]); write(' '); write(va[1]); write(' '); write(va[2]); write(' ');
    write(one == 1); write(' '); write(one == zero); write(' ');
    write(one is bool); write(' '); write(zero is bool); write(' ');
    write(not lt); write(' '); write(lt and lf); write(' '); write(lt or lf); write(' ');
    writeln(lt); writeln(lf); writeln(true); writeln(false);
}
"""
BOOL_EXP = (b'true false true false true false true false false true true false true false true '
            b'true false true false false false true true\nfalse\ntrue\nfalse\n')

# write(bool) of bools that come from a run-time int / byte: the value written must be canonical whatever bit pattern
# the int had (negative values, zero low byte, only the sign bit set)
# write(int) of compile-time constants in every spelling: the text printed is the decimal value, however the constant was written
CONST_INT_SPELLINGS = [
    ('97', 97), ("'a' is int", 97), ('0x61', 97), ('0b1100001', 97), ('0o141', 97), ('9_7', 97), ('+97', 97), ('-(-97)', 97), ('96 + 1', 97), ("'a' + 0", 97),
    ("'\\n' is int", 10), ("'\\0' is int", 0), ("'\\x7f' is int", 127), ("'\\xff' is int", 255), ("'*' is int", 42), ("'\\'' is int", 39), ("'\\\\' is int", 92),
    ('true is int', 1), ('false is int', 0), ("('a' is int) is byte is int" if False else "(('a' is int) is byte) is int", 97), ('KC', 42), ('KI', -7), ('KB is int', 200), ('KC + 0', 42),
    ('0', 0), ('-1', -1), ('-0', 0), ('1000', 1000), ('-1000', -1000), ('32767', 32767), ('-32768', -32768), ('255', 255), ('256', 256),
    ('"abc".length', 3), ('"".length', 0), ('[1, 2, 3].length', 3), ('KS.length', 4), ("KS[1] is int", 98),
]
CONST_INT_GLOBALS = "const int KC = '*'; const int KI = -7; const byte KB = '\\xc8'; const string KS = \"abcd\";\n"


def check_const_ints(stats, ws):
    body = ''.join("  write(%s); write(';'); writeln(%s);\n" % (sp, sp) for sp, _ in CONST_INT_SPELLINGS)
    src = CONST_INT_GLOBALS + 'empty @is_you() {\n' + body + '}\n'
    r = execute(src, [], ws=ws, budget=5_000_000)
    stats.evaluated(len(CONST_INT_SPELLINGS))
    stats.cls('const_int_spellings', len(CONST_INT_SPELLINGS))
    exp = b''.join(('%d;%d\n' % (v, v)).encode() for _, v in CONST_INT_SPELLINGS)
    for sp, v in CONST_INT_SPELLINGS:
        stats.nt('constint:%s:%d' % (sp, ws))
    if r.out != exp or not r.won:
        got = r.out.split(b'\n')
        bad = [(sp, g, ('%d;%d' % (v, v)).encode()) for (sp, v), g in zip(CONST_INT_SPELLINGS, got) if g != ('%d;%d' % (v, v)).encode()][:4]
        return 'write(int) of constants ws=%d: (spelling, got, expected) %r; flags %r outcome %s' % (ws, bad, r.flags, r.outcome)
    return None


BOOLINT_SRC = ('bool id(bool q) { return q; }\n'
               'empty @is_you(const int[] a) { for (int i = 0; i < a.length; i += 1) { '
               'write(a[i] is bool); bool b = a[i] is bool; write(b); write(not b); bool[] box = [false, b, false]; write(box[1]); write(box[0]); write(box[2]); '
               'write(b == true); write(id(a[i] is bool)); write((a[i] is byte) is bool); write(\';\'); } }')


def boolint_expected(vals):
    t = lambda x: b'true' if x else b'false'   # noqa
    return b''.join(t(v) + t(v) + t(not v) + t(v) + b'falsefalse' + t(v) + t(v) + t(v & 0xFF) + b';' for v in vals)


BYTE_SRC = {
    'argv': 'empty @is_you(byte[] a) { for (int i = 0; i < a.length; i += 1) { write(a[i]); } writeln(a[0]); }',
    'const': 'empty @is_you(const byte[] a) { for (int i = 0; i < a.length; i += 1) { byte b = a[i]; write(b); } writeln(a[0]); }',
    'narrow': 'empty @is_you(const int[] a) { for (int i = 0; i < a.length; i += 1) { write(a[i] is byte); } writeln(a[0] is byte); }',
}


def shards(tier):
    out = []
    # exhaustive 16-bit ints: 16 batches of 4096
    for k in range(16):
        out.append(('ints16', k))
    out.append(('bool_byte', 0))
    n = 6 if tier == 'quick' else 16
    for k in range(n):
        out.append(('ints_wide', k))
    for k in range(n):
        out.append(('bytes', k))
    for k in range(4 if tier == 'quick' else 16):
        out.append(('int_site', k))
    out.append(('placement', 0))
    out.append(('placement', 1))
    out.append(('siblings', 0))
    return out


def to_case(kind):
    def f(value, msg):
        return {'kind': kind, 'value': value, 'message': msg}
    return f


def run_shard(desc, seed, tier):
    kind, k = desc
    stats = Stats()
    if kind == 'ints16':
        lo = -32768 + 4096 * k
        vals = list(range(lo, lo + 4096))
        form = ['writeln', 'write', 'local', 'expr'][k % 4]
        r = check_int_batch(stats, form, 2, vals)
        stats.exhaustive = True
        stats.sample({'kind': 'ints16', 'form': form, 'range': [lo, lo + 4095]})
        if r:
            # narrow down to the first failing value for the replay file
            bad = None
            for v in vals:
                if check_int_batch(Stats(), form, 2, [v]):
                    bad = v
                    break
            stats.violation({'kind': 'int_batch', 'value': [form, 2, [bad] if bad is not None else vals], 'message': r[1]})
        return stats
    if kind == 'bool_byte':
        for ws in WORD_SIZES:
            r = execute(BOOL_SRC, ['1', '0'], ws=ws)
            stats.evaluated()
            stats.cls('bool_sources')
            stats.nt('bool:%d' % ws)
            if r.out != BOOL_EXP or not r.won:
                stats.violation({'kind': 'bool', 'value': ws, 'message': 'write(bool) ws=%d: got %r flags=%r' % (ws, r.out, r.flags)})
            m_ = check_const_ints(stats, ws)
            if m_:
                stats.violation({'kind': 'constint', 'value': ws, 'message': m_, 'signature': 'constint'})
            lo_ = -(1 << (8 * ws - 1))
            bvals = [0, 1, -1, 2, 128, -128, 255, 256, -256, -512, -4096, 512, 4096, lo_, lo_ + 1, lo_ + 256, -lo_ - 1, -lo_ - 256, 257, -255, -257, 0x7f00, -0x7f00]
            r = execute(BOOLINT_SRC, [str(v) for v in bvals], ws=ws)
            stats.evaluated(len(bvals))
            stats.cls('bool_from_int', len(bvals))
            for v in bvals:
                stats.nt('boolint:%d:%d' % (ws, v))
            if r.out != boolint_expected(bvals) or not r.won:
                got = r.out.split(b';')
                want = boolint_expected(bvals).split(b';')
                bad = [(v, g, w) for v, g, w in zip(bvals, got, want) if g != w][:3]
                stats.violation({'kind': 'boolint', 'value': ws, 'message': 'write(bool) of int-derived bools ws=%d: (value, got, expected) %r flags=%r' % (ws, bad, r.flags),
                                 'signature': 'boolint'})
            for form, src in BYTE_SRC.items():
                vals = list(range(256))
                if form == 'narrow':
                    lo = -(1 << (8 * ws - 1))
                    vals = [v + 256 * (i % 3) for i, v in enumerate(vals)] + [lo, -1, -256, lo + 255]
                r = execute(src, [str(v) for v in vals], ws=ws)
                stats.evaluated(len(vals))
                stats.cls('byte_' + form, len(vals))
                exp = bytes(v & 0xFF for v in vals) + bytes([vals[0] & 0xFF]) + b'\n'
                for v in vals:
                    stats.nt('byte:%s:%d:%d' % (form, ws, v))
                if r.out != exp or not r.won:
                    stats.violation({'kind': 'byte', 'value': [form, ws], 'message': 'write(byte) form=%s ws=%d: got %r flags=%r' % (form, ws, r.out[:300], r.flags)})
        stats.exhaustive = True
        stats.sample({'kind': 'bool_byte', 'bool_sources': 27, 'byte_values': 256})
        return stats
    if kind == 'ints_wide':
        # boundary grid (deterministic) on shard 0..3 = word sizes, then random lists
        if k < len(WORD_SIZES):
            ws = WORD_SIZES[k]
            vals = boundary_ints(ws)
            for form in INT_SRC:
                r = check_int_batch(stats, form, ws, vals)
                if r:
                    stats.violation({'kind': 'int_batch', 'value': [form, ws, vals], 'message': r[1]})
            stats.sample({'kind': 'int_boundary_grid', 'ws': ws, 'n': len(vals), 'first': vals[:6]})

        def strat():
            return st.sampled_from(WORD_SIZES).flatmap(lambda ws: st.tuples(
                st.sampled_from(sorted(INT_SRC)), st.just(ws),
                st.lists(st.one_of(st.integers(-(1 << (8 * ws - 1)), (1 << (8 * ws - 1)) - 1),
                                   st.sampled_from(boundary_ints(ws))), min_size=1, max_size=40)))

        def chk(v):
            form, ws, vals = v
            stats.sample({'kind': 'int_batch', 'form': form, 'ws': ws, 'values': vals[:8]}) if stats.evaluations % 50 == 0 else None
            return check_int_batch(stats, form, ws, vals)

        search(strat(), chk, seed=derive_seed(seed, 'C17', kind, k), max_examples=60 if tier == 'quick' else 400,
               stats=stats, to_case=lambda v, m: {'kind': 'int_batch', 'value': list(v), 'message': m})
        return stats
    if kind == 'bytes':
        lengths = st.one_of(st.sampled_from([0, 1, 2, 63, 64]), st.integers(0, 64))
        strat = st.tuples(st.sampled_from(FORMS),
                          lengths.flatmap(lambda n: st.lists(st.one_of(st.integers(0, 255), st.sampled_from([0, 10, 13, 34, 39, 92, 127, 128, 255])), min_size=n, max_size=n)),
                          st.booleans(), st.sampled_from(WORD_SIZES), st.booleans())

        def chk(v):
            form, data, ln, ws, tight = v
            if stats.evaluations % 40 == 0:
                stats.sample({'kind': 'bytes', 'form': form, 'data': bytes(data).hex(), 'ln': ln, 'ws': ws, 'tight': tight})
            return check_bytes_case(stats, form, data, ln, ws, tight)

        search(strat, chk, seed=derive_seed(seed, 'C17', kind, k), max_examples=50 if tier == 'quick' else 300,
               stats=stats, to_case=lambda v, m: {'kind': 'bytes', 'value': list(v), 'message': m})
        return stats
    if kind == 'siblings':
        import random
        rnd = random.Random(repr((seed, k)))
        forms = [f for f in FORMS if not f.startswith('argv')]
        for form in forms:
            for n in (2, 3, 8, 9):
                for order in ('before', 'after'):
                    # 0/1 data (numerically equal to a bool array), small values, arbitrary bytes
                    for data in ([rnd.randint(0, 1) for _ in range(n)], [1] * n, [rnd.randint(1, 255) for _ in range(n)]):
                        if form.startswith('string') or form == 'vla':
                            data = [b or 1 for b in data] if form.startswith('string') else data
                        ws_ = rnd.choice([2, 4])
                        try:
                            r = check_bytes_case(stats, form, data, False, ws_, False, ('sibling', order))
                        except Discard:
                            continue
                        if r:
                            stats.violation({'kind': 'bytes_placed', 'value': [form, data, False, ws_, False, ['sibling', order]], 'message': r[1],
                                             'signature': r[0] + ':sibling'})
        stats.exhaustive = True
        stats.sample({'kind': 'siblings', 'forms': forms, 'note': 'numerically equal bool/int/string constants in the same program'})
        return stats
    if kind == 'placement':
        # 16-bit only: data placed around and above the middle of the address space (0x8000), in the const
        # section (behind a long string constant) and in the state section (behind a maximal stack)
        import random
        rnd = random.Random(repr((seed, k)))
        const_forms = ['const_global', 'hoisted_literal', 'const_local', 'param_RC', 'string_literal', 'string_global', 'string_local',
                       'string_as_bytes', 'string_to_const_bytes_var', 'string_elem', 'string_ret']
        state_forms = ['mut_global', 'param_RW', 'param_RW_as_const']
        cases = []
        for form in const_forms:
            for n in (1, 7, 64):
                # datum starting just below, exactly at, straddling and well above 0x8000 (length word = 2 bytes first)
                for start in (0x8000 - 2 - n, 0x8000 - 2 - n // 2, 0x8000 - 2, 0x8000, 0x8000 + 300):
                    cases.append((form, n, ('const', max(1, start - 2 - 2))))
        for form in state_forms:
            for n in (1, 7, 64):
                for S in (16378, 16370, 16360, 16340):
                    cases.append((form, n, ('stack', S)))
        rnd.shuffle(cases)
        take = cases[k::2]
        if tier == 'quick':
            take = take[:45]
        for form, n, pad in take:
            data = [rnd.randint(0, 255) for _ in range(n)]
            if form.startswith('string') or True:
                data = [b if b != 0 else 1 for b in data]
            try:
                r = check_bytes_case(stats, form, data, rnd.random() < 0.5, 2, False, pad)
            except Discard:
                continue
            if r:
                stats.violation({'kind': 'bytes_placed', 'value': [form, data, False, 2, False, list(pad)], 'message': r[1], 'signature': r[0]})
        stats.sample({'kind': 'placement', 'forms': const_forms + state_forms, 'pads': 'const string of ~32 KiB / stack of 16340..16378 words'})
        return stats
    if kind == 'int_site':
        strat = st.sampled_from(WORD_SIZES).flatmap(lambda ws: st.tuples(
            st.one_of(st.sampled_from(boundary_ints(ws)), st.integers(-(1 << (8 * ws - 1)), (1 << (8 * ws - 1)) - 1)),
            st.just(ws), st.booleans(), st.integers(0, 9)))

        def chk(v):
            val, ws, ln, arr_len = v
            if stats.evaluations % 20 == 0:
                stats.sample({'kind': 'int_site', 'v': val, 'ws': ws, 'ln': ln, 'arr_len': arr_len})
            return check_int_site(stats, val, ws, ln, arr_len)

        search(strat, chk, seed=derive_seed(seed, 'C17', kind, k), max_examples=25 if tier == 'quick' else 150,
               stats=stats, to_case=lambda v, m: {'kind': 'int_site', 'value': list(v), 'message': m})
        return stats
    raise AssertionError(desc)


def replay(case):
    kind = case['kind']
    v = case['value']
    st_ = Stats()
    try:
        if kind == 'int_batch':
            r = check_int_batch(st_, v[0], v[1], v[2])
        elif kind == 'bytes':
            r = check_bytes_case(st_, v[0], v[1], v[2], v[3], v[4])
        elif kind == 'bytes_placed':
            r = check_bytes_case(st_, v[0], v[1], v[2], v[3], v[4], tuple(v[5]))
        elif kind == 'int_site':
            r = check_int_site(st_, v[0], v[1], v[2], v[3])
        elif kind == 'constint':
            m_ = check_const_ints(st_, v)
            r = ('constint', m_) if m_ else None
        elif kind == 'boolint':
            s2 = run_shard(('bool_byte', 0), 1, 'quick')
            bad = [x for x in s2.violations if x.get('kind') == 'boolint']
            r = ('boolint', bad[0]['message']) if bad else None
        elif kind == 'bool':
            rr = execute(BOOL_SRC, ['1', '0'], ws=v)
            r = None if (rr.out == BOOL_EXP and rr.won) else ('bool', 'write(bool): got %r' % rr.out)
        elif kind == 'byte':
            s2 = run_shard(('bool_byte', 0), 1, 'quick')
            r = ('byte', s2.violations[0]['message']) if s2.violations else None
        else:
            return 'unknown replay kind %r' % kind
    except Discard:
        return None
    return r[1] if r else None
