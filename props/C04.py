"""C04 - checked builds are memory safe, even with the stack exactly full."""
from hypothesis import strategies as st

from gen.programs import programs, ALL_FEATURES, SEQ_FEATURES, argv_strings
from harness.runner import Stats, case_hash
from harness.hyp import search, derive_seed, Discard
from harness.execute import S0, run_lines, compile_lines
from harness.progcase import case_json, case_from_json, program_minimizer, reference_for, fmt_events
from harness import hidc_driver as H
from hast.printer import to_source
from ref.constfold import f4_pattern
from svm.monitors import MemMonitor
import hast
import svm

PROPERTY = 'C04'
RULE = ('Hypothesis-generated programs dense in frame traffic and allocation (array literals with call-valued elements, dynamic '
        'arrays with lengths and indices from argv incl. negative/huge, nested scopes, recursion, arrays passed down, every '
        'library routine), argv, word sizes {2,3,4,8}. For each: the minimal stack size S_min is found by binary search, then the '
        'checked build is run at every S from S_min+2 down to S_min-3, at 400 words and at one very large stack; in half of the '
        'shards dynamic array lengths come from argv and are swept up to the largest length the allocation guard admits (and '
        'one beyond), so that the allocation guard itself is the binding constraint; plus an exhaustive grid of small programs '
        'around one dynamic array (earlier expression depth 0-6 x element type x shape of the code that follows) run at every '
        'stack size from 0 up to two above the first that succeeds, and a grid of write(int)/writeln(int) call sites (value of 1 digit / more digits than a word / the most negative 16-bit value) that are the deepest point of a frame holding live arrays of every kind, in @is_you, a block, a callee; dynamic lengths whose size in bytes wraps around the word (ws >= 3) at several stack sizes; arrays of constant length 255 / 256 indexed through byte-typed and int values 254..256. Oracle (a): a '
        'replay monitor judges every load, store and taken jump of the committed path: fp-based accesses within [ap, fp); '
        'element accesses inside the live array extent / global object their base belongs to (extents tracked from every '
        'change of ap); array-literal stores inside the newest extent; nothing through a non-fp base into the frame region, '
        'the registers or the saved try context; ap inside the stack and never lowered into the middle of an extent; jump '
        'targets are code labels; no machine-level fault on any path, speculative or not. Oracle (b): for S >= S_min the event '
        'stream equals the reference interpreter\'s; for S < S_min the run ends stack_overflow,error and (programs without '
        'time travel) its output is a prefix of the reference output. Non-trivial: a run at S_min in which a frame store '
        'came within one word of ap while an array was live. Distinct by hash of (source, argv, word size).')
ASSUMPTIONS = ['verification Sphinx VM (svm); monitor rules in svm/monitors.py', 'reference interpreter for oracle (b)',
               'programs reading uninitialised elements and programs with out-of-range folded constants (F4) are excluded']
MIN_NONTRIVIAL = 50
FAULTS = {'stack_overflow', 'division_by_zero', 'out_of_bounds', 'nonlocal_preempt'}


def shards(tier):
    return list(range(12)) + [('vla_grid', j, 4) for j in range(4)]


def has_tt(prog):
    return any(isinstance(n, (hast.Try, hast.Preempt, hast.Spec)) for n in hast.walk(prog))


def monitored_run(lines, args, budget=1_500_000):
    # (also used by the length sweep with a larger budget)
    run = run_lines(lines, args, budget)
    if run.outcome == svm.BUDGET or run.res is None:
        return run, None
    m = MemMonitor(run.prog)
    svm.VM(run.prog).replay(run.res.decisions, m, max_steps=run.res.steps + 10)
    return run, m


def max_stack(ws):
    return min(((1 << (8 * ws - 1)) - 1) // ws - 5, 30000)


def check_case(stats, case):
    prog, vals, ws = case
    if f4_pattern(prog, ws):
        stats.known('F4')
        raise Discard('known F4')
    src = to_source(prog)
    args = argv_strings(vals)
    ref = reference_for(prog, vals, ws)
    if ref.kind == 'budget' or ref.kind.startswith('undefined') or ref.kind == 'halt':
        raise Discard('reference gave up: ' + ref.kind.split(':')[0])

    def build(S):
        try:
            return compile_lines(src, ws, S, False)
        except H.CompilerError as e:
            if 'ivision by zero' in str(e) or 'odulus of zero' in str(e):
                raise Discard('constant division by zero')
            raise

    # S_min by binary search (runs without monitor)
    base = run_lines(build(S0), args, budget=1_500_000)
    if base.outcome == svm.BUDGET:
        raise Discard('vm budget')
    ref_overflows = ref.kind == 'fault:stack_overflow'
    if base.overflowed and not ref_overflows:
        return ('overflow_at_S0', 'ws=%d argv=%r: stack_overflow at 400 words, reference says %s\n%s' % (ws, vals, ref.kind, src))
    if ref_overflows:
        sizes = [S0, 50]
        smin = None
    else:
        lo, hi = -1, S0
        while hi - lo > 1:
            mid = (lo + hi) // 2
            if run_lines(build(mid), args, budget=1_500_000).overflowed:
                lo = mid
            else:
                hi = mid
        smin = hi
        sizes = [s for s in range(smin + 2, smin - 4, -1) if s >= 0] + [S0, max_stack(ws)]
    tt = has_tt(prog)
    for S in sizes:
        run, mon = monitored_run(build(S), args)
        stats.evaluated()
        if run.outcome == svm.BUDGET:
            raise Discard('vm budget')
        stats.cls('runs_S_ge_smin' if smin is None or S >= smin else 'runs_S_lt_smin')
        where = 'ws=%d S=%d (S_min=%s) argv=%r' % (ws, S, smin, vals)
        if run.res is None:
            return ('asm', '%s: %s\n%s' % (where, run.outcome, src))
        if run.res.faults:
            return ('machine_fault', '%s: machine fault on a (possibly speculative) path of a checked build: %r\n%s' % (where, run.res.faults[:3], src))
        if mon.violations:
            pc, what, ins, stmt, fn = mon.violations[0]
            return ('mem:' + what.split(' ')[0] + ':' + ('smin' if S == smin else 'other'),
                    '%s: %s  [pc %d `%s`; %s; %s]\n%s' % (where, what, pc, ins, stmt, fn, src))
        if smin is None or S >= smin:
            if run.events != ref.events or run.outcome != svm.FOREVER:
                return ('diff', '%s: events %s, reference %s\n%s' % (where, fmt_events(run.events), fmt_events(ref.events), src))
        else:
            if run.flags[-2:] != ['stack_overflow', 'error'] or run.outcome != svm.FOREVER:
                return ('below_smin', '%s: below the minimal stack size the run must end in stack_overflow,error; got flags %r (%s) output %r\n%s' % (
                    where, run.flags, run.outcome, run.out[:80], src))
            if not tt and not ref.output.startswith(run.out):
                return ('corrupt_prefix', '%s: output %r before the overflow is not a prefix of the reference output %r\n%s' % (
                    where, run.out[:120], ref.output[:120], src))
        if S == smin:
            stats.cls('runs_at_smin')
            if mon.min_gap is not None and mon.min_gap < ws and mon.min_gap_arrays > 0:
                stats.cls('exactly_full_with_live_array')
                stats.nt(case_hash([src, repr(vals), ws]))
    stats.cls('programs_ws%d' % ws)
    # length sweep: if dynamic array lengths come from argv (entry parameter vlen), grow the length until the
    # allocation guard is the binding constraint, and judge the runs right at that boundary
    main = [f for f in prog.funcs if f.name == '@is_you'][0]
    if main.params and main.params[0].name == 'vlen' and ref.kind != 'fault:stack_overflow':
        def with_len(n):
            return [n] + list(vals[1:])

        def overflows(n):
            r = run_lines(build(S0), argv_strings(with_len(n)), budget=3_000_000)
            return r.overflowed, r
        lo, hi = vals[0], None
        n = max(8, vals[0] * 2)
        while n <= 4 * S0 * ws:
            o, r = overflows(n)
            if r.outcome == svm.BUDGET:
                break
            if o:
                hi = n
                break
            lo = n
            n *= 2
        if hi is not None:
            while hi - lo > 1:
                mid = (lo + hi) // 2
                o, r = overflows(mid)
                if o:
                    hi = mid
                else:
                    lo = mid
            for n in (lo, lo - 1, hi):
                if n < 0:
                    continue
                run, mon = monitored_run(build(S0), argv_strings(with_len(n)), budget=3_000_000)
                stats.evaluated()
                stats.cls('length_sweep_runs')
                if run.outcome == svm.BUDGET or run.res is None:
                    continue
                where = 'ws=%d S=%d argv=%r (dynamic length swept: largest length without overflow is %d)' % (ws, S0, with_len(n), lo)
                if run.res.faults:
                    return ('machine_fault', '%s: machine fault on a (possibly speculative) path: %r\n%s' % (where, run.res.faults[:3], src))
                if mon.violations:
                    pc, what, ins, stmt, fn = mon.violations[0]
                    return ('mem:' + what.split(' ')[0] + ':length', '%s: %s  [pc %d `%s`; %s; %s]\n%s' % (where, what, pc, ins, stmt, fn, src))
                r2 = reference_for(prog, with_len(n), ws, stack_words=10 ** 7, budget=400_000)
                if r2.kind == 'budget' or r2.kind.startswith('undefined') or r2.kind == 'halt':
                    continue
                if n == hi:
                    if run.flags[-2:] != ['stack_overflow', 'error'] or (not tt and not r2.output.startswith(run.out)):
                        return ('length_overflow', '%s: expected a clean stack_overflow with a prefix of the reference output, got %r %r\n%s' % (where, run.out[:80], run.flags, src))
                elif run.events != r2.events or run.outcome != svm.FOREVER:
                    return ('length_diff', '%s: events %s, reference %s\n%s' % (where, fmt_events(run.events), fmt_events(r2.events), src))
                if n == lo:
                    stats.nt(case_hash([src, repr(with_len(n)), ws, 'len']))
    return None


# ---- dynamic-allocation guard grid -------------------------------------------------------------------------
def vla_grid_programs():
    """(name, source) of small programs around one dynamic array: an optional earlier deep expression, the
    allocation, then code that needs more frame (locals, loops, a nested literal, a callee, a second array)."""
    out = []
    vals = {'int': '(i * 3) + 1', 'byte': '(i + 97) is byte', 'bool': '(i % 2) == 0', 'string': '"s"'}
    show = {'int': 'write(arr[i]);', 'byte': 'write(arr[i]);', 'bool': 'write(arr[i]);', 'string': 'write(arr[i]);'}
    for k in range(0, 7):
        params = ', '.join('int a%d' % j for j in range(k))
        helper = 'int sumk(%s) { return 1%s; }\n' % (params, ''.join(' + a%d' % j for j in range(k))) if k else ''
        early = "write((64 + sumk(%s)) is byte);" % ', '.join(str(j) for j in range(k)) if k else "write('@');"
        for el in ('int', 'byte', 'bool', 'string'):
            fill = 'for (int i = 0; i < n; i += 1) { arr[i] = %s; }' % vals[el]
            dump = 'for (int i = 0; i < n; i += 1) { %s }' % show[el]
            shapes = {
                'locals': 'int total = 0; %s for (int i = 0; i < n; i += 1) { total += i; } %s write(total %% 10);' % (fill, dump),
                'literal': '%s { int[] z = [n, 2, 3]; write(z[0] + z[2]); } %s' % (fill, dump),
                'callee': '%s touch(arr.length); %s' % (fill, dump),
                'second': 'byte b2[n]; %s for (int i = 0; i < n; i += 1) { b2[i] = (i + 48) is byte; } %s write(b2);' % (fill, dump),
                'loop': 'for (int r = 0; r < 2; r += 1) { int w = r + n; write(w); } %s %s' % (fill, dump),
            }
            for sname, body in shapes.items():
                src = helper + 'empty touch(int q) { int u = q + 1; int v = u * 2; write(v); }\n' + \
                    'empty @is_you(int n) {\n  %s\n  %s arr[n];\n  %s\n}\n' % (early, el, body)
                out.append(('early%d:%s:%s' % (k, el, sname), src))
    return out


def write_site_programs():
    """(name, source): write(int)/writeln(int) of the entry argument as the deepest point of a frame that holds live
    arrays (literal with a run-time element, all-constant literal, dynamic array; int / byte / bool), in @is_you or in a
    callee, every element read back afterwards.  write_int keeps its digits below the argument slot."""
    out = []
    arrays = {
        'int_lit': ('int[] a = [x0, 2, 4];', 'for (int i = 0; i < a.length; i += 1) { write(a[i]); write(\',\'); }'),
        'int_constlit': ('int[] a = [9, 2, 4, 8];', 'for (int i = 0; i < a.length; i += 1) { write(a[i]); write(\',\'); }'),
        'byte_lit': ("byte[] a = [x0 is byte, 'b', 'c', 'd', 'e'];", 'for (int i = 0; i < a.length; i += 1) { write(a[i] is int); write(\',\'); }'),
        'bool_lit': ('bool[] a = [x0 > 1, true, false, true, true, false, true, false, true];', 'for (int i = 0; i < a.length; i += 1) { write(a[i]); }'),
        'int_vla': ('int a[3]; a[0] = x0; a[1] = 2; a[2] = 4;', 'for (int i = 0; i < a.length; i += 1) { write(a[i]); write(\',\'); }'),
        'two': ("int[] a = [x0, 2]; byte[] b = [x0 is byte, 'q', 'r'];", "write(a[0]); write(a[1]); write(b[0] is int); write(b[1]); write(b[2]);"),
        'const_nonlit': ('const int[] a = [x0, 5, 6];', 'write(a[0]); write(a[1]); write(a[2]);'),
    }
    for aname, (decl, dump) in arrays.items():
        # the printed value is arithmetic over byte operands: an int of up to five digits although every operand is a byte
        for w in ('write', 'writeln'):
            src = "empty @is_you(int n) {\n  int x0 = 3; byte bq = ((n %% 100) + 150) is byte; byte[] bs = [bq, 'z'];\n  %s\n  %s(bq * bq); %s(bs[0] * 200 + bq);\n  %s\n}\n" % (decl, w, w, dump)
            out.append(('wsite:%s:%s:bytearith' % (aname, w), src))
    for aname, (decl, dump) in arrays.items():
        for w in ('write', 'writeln'):
            for where in ('main', 'callee', 'callee_arg', 'block'):
                if where == 'main':
                    src = 'empty @is_you(int n) {\n  int x0 = 3;\n  %s\n  %s(n);\n  %s\n}\n' % (decl, w, dump)
                elif where == 'block':
                    src = 'empty @is_you(int n) {\n  int x0 = 3;\n  if (n != 1) {\n    %s\n    %s(n);\n    %s\n  }\n  write(x0);\n}\n' % (decl, w, dump)
                elif where == 'callee':
                    src = 'empty f(int n) {\n  int x0 = 3;\n  %s\n  %s(n);\n  %s\n}\nempty @is_you(int n) {\n  int[] outer = [n, 7];\n  f(n);\n  write(outer[1]);\n}\n' % (decl, w, dump)
                else:
                    src = 'empty show(int v) { %s(v); }\nempty @is_you(int n) {\n  int x0 = 3;\n  %s\n  show(n);\n  %s\n}\n' % (w, decl, dump)
                out.append(('wsite:%s:%s:%s' % (aname, w, where), src))
    # the entry point re-entered recursively while it holds a dynamic array: every activation has its own stack check
    out.append(('early_reenter:byte:canvas', "empty @is_you(int n) {\n  byte canvas[8];\n  for (int i = 0; i < 8; i += 1) { canvas[i] = (65 + i) is byte; }\n"
                "  if (n > 0) { if (n < 40) { @is_you(n - 1); } }\n  write(canvas); write(n %% 10);\n}\n" % ()))
    out.append(('early_reenter:int:lit', "empty @is_you(int n) {\n  int[] keep = [n, 7, 9];\n  if (n > 0) { if (n < 40) { @is_you(n - 1); } }\n  write(keep[1]); write(keep[2]); write(keep[0] %% 10);\n}\n" % ()))
    return out


def check_vla_grid(stats, name, src, ws, n):
    from harness.progcase import check_source_program
    from ref.parse import parse_program
    from ref.types import check_program as tcheck
    prog = parse_program(src)
    tcheck(prog)
    ref = reference_for(prog, [n], ws, stack_words=10 ** 7)
    if ref.kind != 'win':
        raise Discard('reference: ' + ref.kind)
    won_at = None
    S = 0
    while S <= 120:
        lines = compile_lines(src, ws, S, False)
        run, mon = monitored_run(lines, [str(n)])
        stats.evaluated()
        stats.cls('vla_grid_runs')
        where = 'dynamic-array grid %s ws=%d n=%d S=%d' % (name, ws, n, S)
        if run.res is None:
            return ('asm', where + ': ' + run.outcome + '\n' + src)
        if run.res.faults:
            return ('machine_fault', '%s: machine fault on a (possibly speculative) path: %r\n%s' % (where, run.res.faults[:3], src))
        if mon.violations:
            pc, what, ins, stmt, fn = mon.violations[0]
            return ('mem:' + what.split(' ')[0] + ':grid', '%s: %s  [pc %d `%s`; %s]\n%s' % (where, what, pc, ins, stmt, src))
        if run.overflowed:
            if run.flags[-2:] != ['stack_overflow', 'error'] or not ref.output.startswith(run.out):
                return ('grid_overflow', '%s: output %r flags %r is not a clean overflow after a prefix of %r\n%s' % (where, run.out, run.flags, ref.output, src))
        else:
            if run.events != ref.events or run.outcome != svm.FOREVER:
                return ('grid_diff', '%s: events %s, reference %s\n%s' % (where, fmt_events(run.events), fmt_events(ref.events), src))
            if won_at is None:
                won_at = S
                if mon.min_gap is not None and mon.min_gap < ws and mon.min_gap_arrays > 0:
                    stats.nt('grid:%s:%d:%d' % (name, ws, n))
        if won_at is not None and S >= won_at + 2:
            break
        S += 1
    return None


def check_huge_length(stats, name, src, ws, n, S):
    """A dynamic array length so large that its size in bytes wraps around the word (possible for ws >= 3): the run must
    end in stack_overflow without a single out-of-region access, whatever the stack size."""
    from ref.parse import parse_program
    from ref.types import check_program as tcheck
    prog = parse_program(src)
    tcheck(prog)
    ref = reference_for(prog, [n], ws, stack_words=S)
    if ref.kind != 'fault:stack_overflow':
        raise Discard('reference: ' + ref.kind)
    run, mon = monitored_run(compile_lines(src, ws, S, False), [str(n)])
    stats.evaluated()
    stats.cls('huge_length_runs')
    stats.nt('huge:%s:%d:%d:%d' % (name, ws, n, S))
    where = 'huge dynamic length %s ws=%d n=%d S=%d' % (name, ws, n, S)
    if run.res is None:
        return ('asm', where + ': ' + run.outcome + '\n' + src)
    if run.res.faults:
        return ('machine_fault', '%s: machine fault on a (possibly speculative) path: %r\n%s' % (where, run.res.faults[:3], src))
    if mon.violations:
        pc, what, ins, stmt, fn = mon.violations[0]
        return ('mem:' + what.split(' ')[0] + ':huge', '%s: %s  [pc %d `%s`; %s]\n%s' % (where, what, pc, ins, stmt, src))
    if run.flags[-2:] != ['stack_overflow', 'error'] or not ref.output.startswith(run.out):
        return ('huge_overflow', '%s: expected a clean stack_overflow after a prefix of %r, got output %r flags %r (%s)\n%s' % (
            where, ref.output, run.out, run.flags, run.outcome, src))
    return None


def byte_index_programs():
    """Arrays whose constant length sits at the byte boundary (255 / 256), indexed through values of static type byte
    (variable, cast, array element) and int: a byte can reach 255, one past the end of 255 elements."""
    out = []
    zero = {'int': '0', 'byte': "'\\0'", 'bool': 'false'}
    show = {'int': 'write(%s);', 'byte': 'write(%s is int);', 'bool': 'write(%s);'}
    newv = {'int': '9', 'byte': "'9'", 'bool': 'true'}
    for el in ('int', 'byte', 'bool'):
        for n in (255, 256):
            for where in ('global', 'stack'):
                lit_ = '[%s]' % ', '.join([zero[el]] * n)
                for ixf in ('bi', '(i is byte)', 'bidx[0]', 'i'):
                    for form in ('read', 'write', 'compound'):
                        if form == 'compound' and el == 'bool':
                            continue
                        glob = 'int canary = 4243;\n' + ('%s[] A = %s;\nint after = 777;\n' % (el, lit_) if where == 'global' else '')
                        pre = 'byte bi = i is byte; byte[] bidx = [i is byte, 1]; int x0 = 0;'
                        if where == 'stack':
                            pre += ' %s[] A = %s; A[0] = %s; int[] nb = [5, 6];' % (el, lit_, zero[el])
                        tgt = 'A[%s]' % ixf
                        stmt = {'read': show[el] % tgt, 'write': '%s = %s; %s' % (tgt, newv[el], show[el] % tgt),
                                'compound': '%s += %s; %s' % (tgt, "1" if el == 'int' else "'\\x01'", show[el] % tgt)}[form]
                        tail = 'write(canary); write(after);' if where == 'global' else 'write(canary); write(nb[0]);'
                        src = '%sempty @is_you(int i) {\n  %s\n  write(\'B\');\n  %s\n  %s\n}\n' % (glob, pre, stmt, tail)
                        out.append(('byteidx:%s:%d:%s:%s:%s' % (el, n, where, form, ixf), src))
    return out


def check_small(stats, name, src, ws, n, S):
    """One small program at one stack size: monitor quiet, events equal to the reference's (which may be a fault)."""
    from ref.parse import parse_program
    from ref.types import check_program as tcheck
    prog = parse_program(src)
    tcheck(prog)
    ref = reference_for(prog, [n], ws, stack_words=S)
    if ref.kind == 'budget' or ref.kind.startswith('undefined') or ref.kind == 'halt':
        raise Discard('reference: ' + ref.kind)
    run, mon = monitored_run(compile_lines(src, ws, S, False), [str(n)])
    stats.evaluated()
    stats.cls('byte_index_runs')
    where = '%s ws=%d n=%d S=%d' % (name, ws, n, S)
    if run.res is None:
        return ('asm', where + ': ' + run.outcome + '\n' + src)
    if run.res.faults:
        return ('machine_fault', '%s: machine fault on a (possibly speculative) path: %r\n%s' % (where, run.res.faults[:3], src[-600:]))
    if mon.violations:
        pc, what, ins, stmt, fn = mon.violations[0]
        return ('mem:' + what.split(' ')[0] + ':byteidx', '%s: %s  [pc %d `%s`; %s]\n%s' % (where, what, pc, ins, stmt, src[-600:]))
    if run.events != ref.events or run.outcome != svm.FOREVER:
        return ('byteidx_diff', '%s: events %s, reference %s\n%s' % (where, fmt_events(run.events), fmt_events(ref.events), src[-600:]))
    return None


def huge_lengths(ws):
    full = (1 << (8 * ws)) // ws
    hi = (1 << (8 * ws - 1)) - 1
    return [v for v in (full, full + 1, full + 2, full + 5, full + 33, full + 100, full + 400, hi // ws, hi // ws + 1, hi, hi - 1,
                        (1 << (8 * ws)) // 8 + 1, (1 << (8 * ws - 1)) // ws * 1 + 3) if 0 < v <= hi]


def run_shard(k, seed, tier):
    stats = Stats()
    if isinstance(k, tuple):
        progs = vla_grid_programs() + write_site_programs()
        if k[1] == 1:
            for name, src in byte_index_programs():
                for ws in ((2,) if tier == 'quick' else (2, 3, 4)):
                    for n in ((254, 255, 256) if tier == 'quick' else (0, 254, 255, 256, 257, 511, -1)):
                        try:
                            m = check_small(stats, name, src, ws, n, S0)
                        except Discard as d:
                            stats.discard(d.why)
                            continue
                        if n in (255, 256):
                            stats.nt('byteidx:%s:%d:%d' % (name, ws, n))
                        if m:
                            stats.violation({'kind': 'byte_index', 'value': [name, ws, n], 'message': m[1], 'signature': m[0]})
        if k[1] == 0:
            for name, src in vla_grid_programs():
                if not (name.startswith(('early0:', 'early3:')) and name.endswith((':locals', ':second'))):
                    continue
                for ws in ((3, 4) if tier == 'quick' else (3, 4, 5, 8)):
                    for n in huge_lengths(ws):
                        for S in ((S0, 30) if tier == 'quick' else (S0, 30, 3, 4000)):
                            try:
                                m = check_huge_length(stats, name, src, ws, n, S)
                            except Discard as d:
                                stats.discard(d.why)
                                continue
                            if m:
                                stats.violation({'kind': 'huge_length', 'value': [name, ws, n, S], 'message': m[1], 'signature': m[0]})
        for pi, (name, src) in enumerate(progs):
            if pi % k[2] != k[1]:
                continue
            for ws in ((2, 4) if tier == 'quick' else (2, 3, 4, 8)):
                if name.startswith('wsite'):
                    ns = (7, 12345, -32768) if tier == 'quick' else (0, 7, -1, 99, 100, -100, 12345, 32767, -32768)
                else:
                    ns = (3, 10) if tier == 'quick' else (0, 1, 3, 10, 17)
                for n in ns:
                    try:
                        m = check_vla_grid(stats, name, src, ws, n)
                    except Discard as d:
                        stats.discard(d.why)
                        continue
                    if m:
                        stats.violation({'kind': 'vla_grid', 'value': [name, ws, n], 'message': m[1], 'signature': m[0]})
            if pi % 40 == k[1]:
                stats.sample({'kind': 'dynamic-array grid', 'name': name, 'source': src})
        stats.exhaustive = True
        return stats
    n = 100 if tier == 'quick' else 2500
    feats = (SEQ_FEATURES if k % 3 else ALL_FEATURES) - {'terminal'}
    strat = programs(features=feats, size=dict(main_stmts=10, funcs=4, arr_len=6, max_params=5, deep_before_vla_pct=40, argv_vla=(k % 2 == 0), index_clobber_pct=25))

    def chk(case):
        if stats.evaluations % 200 == 0:
            stats.sample({'source': to_source(case[0])[:1500], 'argv': repr(case[1]), 'ws': case[2]})
        return check_case(stats, case)

    quiet = Stats()
    mini = program_minimizer(lambda v: check_case(quiet, v), lambda v: v, lambda v, p: (p, v[1], v[2]), max_evals=60)
    search(strat, chk, seed=derive_seed(seed, 'C04', k), max_examples=n, stats=stats, shrink=(tier == 'thorough'),
           minimizer=mini, to_case=lambda v, m: dict(case_json(*v), message=m, kind='program'))
    return stats


def replay(case):
    if case.get('kind') == 'byte_index':
        name, ws, n = case['value']
        src = dict(byte_index_programs())[name]
        try:
            m = check_small(Stats(), name, src, ws, n, S0)
        except Discard:
            return None
        return m[1] if m else None
    if case.get('kind') == 'huge_length':
        name, ws, n, S = case['value']
        for n2, src in vla_grid_programs():
            if n2 == name:
                try:
                    m = check_huge_length(Stats(), name, src, ws, n, S)
                except Discard:
                    return None
                return m[1] if m else None
        return None
    if case.get('kind') == 'vla_grid':
        name, ws, n = case['value']
        for n2, src in vla_grid_programs() + write_site_programs():
            if n2 == name:
                try:
                    m = check_vla_grid(Stats(), name, src, ws, n)
                except Discard:
                    return None
                return m[1] if m else None
        return 'unknown grid program'
    prog, vals, ws = case_from_json(case)
    try:
        r = check_case(Stats(), (prog, vals, ws))
    except Discard:
        return None
    return r[1] if r else None
