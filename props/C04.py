"""C04 - checked builds are memory safe, even with the stack exactly full."""
from hypothesis import strategies as st

from gen.programs import programs, ALL_FEATURES, SEQ_FEATURES, argv_strings
from harness.runner import Stats, case_hash
from harness.hyp import search, derive_seed, Discard
from harness.execute import S0, run_lines, compile_lines
from harness.progcase import case_json, case_from_json, program_minimizer, reference_for, fmt_events
from harness import hidc_driver as H
from hast.printer import to_source
from ref.constfold import f4_pattern
from svm.monitors import MemMonitor
import hast
import svm

PROPERTY = 'C04'
RULE = ('Hypothesis-generated programs dense in frame traffic and allocation (array literals with call-valued elements, dynamic '
        'arrays with lengths and indices from argv incl. negative/huge, nested scopes, recursion, arrays passed down, every '
        'library routine), argv, word sizes {2,3,4,8}. For each: the minimal stack size S_min is found by binary search, then the '
        'checked build is run at every S from S_min+2 down to S_min-3, at 400 words and at one very large stack. Oracle (a): a '
        'replay monitor judges every load, store and taken jump of the committed path: fp-based accesses within [ap, fp); '
        'element accesses inside the live array extent / global object their base belongs to (extents tracked from every '
        'change of ap); array-literal stores inside the newest extent; nothing through a non-fp base into the frame region, '
        'the registers or the saved try context; ap inside the stack and never lowered into the middle of an extent; jump '
        'targets are code labels; no machine-level fault on any path, speculative or not. Oracle (b): for S >= S_min the event '
        'stream equals the reference interpreter\'s; for S < S_min the run ends stack_overflow,error and (programs without '
        'time travel) its output is a prefix of the reference output. Non-trivial: a run at S_min in which a frame store '
        'came within one word of ap while an array was live. Distinct by hash of (source, argv, word size).')
ASSUMPTIONS = ['verification Sphinx VM (svm); monitor rules in svm/monitors.py', 'reference interpreter for oracle (b)',
               'programs reading uninitialised elements and programs with out-of-range folded constants (F4) are excluded']
MIN_NONTRIVIAL = 50
FAULTS = {'stack_overflow', 'division_by_zero', 'out_of_bounds', 'nonlocal_preempt'}


def shards(tier):
    return list(range(16))


def has_tt(prog):
    return any(isinstance(n, (hast.Try, hast.Preempt, hast.Spec)) for n in hast.walk(prog))


def monitored_run(lines, args, budget=1_500_000):
    run = run_lines(lines, args, budget)
    if run.outcome == svm.BUDGET or run.res is None:
        return run, None
    m = MemMonitor(run.prog)
    svm.VM(run.prog).replay(run.res.decisions, m, max_steps=run.res.steps + 10)
    return run, m


def max_stack(ws):
    return min(((1 << (8 * ws - 1)) - 1) // ws - 5, 30000)


def check_case(stats, case):
    prog, vals, ws = case
    if f4_pattern(prog, ws):
        stats.known('F4')
        raise Discard('known F4')
    src = to_source(prog)
    args = argv_strings(vals)
    ref = reference_for(prog, vals, ws)
    if ref.kind == 'budget' or ref.kind.startswith('undefined') or ref.kind == 'halt':
        raise Discard('reference gave up: ' + ref.kind.split(':')[0])

    def build(S):
        try:
            return compile_lines(src, ws, S, False)
        except H.CompilerError as e:
            if 'ivision by zero' in str(e) or 'odulus of zero' in str(e):
                raise Discard('constant division by zero')
            raise

    # S_min by binary search (runs without monitor)
    base = run_lines(build(S0), args, budget=1_500_000)
    if base.outcome == svm.BUDGET:
        raise Discard('vm budget')
    ref_overflows = ref.kind == 'fault:stack_overflow'
    if base.overflowed and not ref_overflows:
        return ('overflow_at_S0', 'ws=%d argv=%r: stack_overflow at 400 words, reference says %s\n%s' % (ws, vals, ref.kind, src))
    if ref_overflows:
        sizes = [S0, 50]
        smin = None
    else:
        lo, hi = -1, S0
        while hi - lo > 1:
            mid = (lo + hi) // 2
            if run_lines(build(mid), args, budget=1_500_000).overflowed:
                lo = mid
            else:
                hi = mid
        smin = hi
        sizes = [s for s in range(smin + 2, smin - 4, -1) if s >= 0] + [S0, max_stack(ws)]
    tt = has_tt(prog)
    for S in sizes:
        run, mon = monitored_run(build(S), args)
        stats.evaluated()
        if run.outcome == svm.BUDGET:
            raise Discard('vm budget')
        stats.cls('runs_S_ge_smin' if smin is None or S >= smin else 'runs_S_lt_smin')
        where = 'ws=%d S=%d (S_min=%s) argv=%r' % (ws, S, smin, vals)
        if run.res is None:
            return ('asm', '%s: %s\n%s' % (where, run.outcome, src))
        if run.res.faults:
            return ('machine_fault', '%s: machine fault on a (possibly speculative) path of a checked build: %r\n%s' % (where, run.res.faults[:3], src))
        if mon.violations:
            pc, what, ins, stmt, fn = mon.violations[0]
            return ('mem:' + what.split(' ')[0] + ':' + ('smin' if S == smin else 'other'),
                    '%s: %s  [pc %d `%s`; %s; %s]\n%s' % (where, what, pc, ins, stmt, fn, src))
        if smin is None or S >= smin:
            if run.events != ref.events or run.outcome != svm.FOREVER:
                return ('diff', '%s: events %s, reference %s\n%s' % (where, fmt_events(run.events), fmt_events(ref.events), src))
        else:
            if run.flags[-2:] != ['stack_overflow', 'error'] or run.outcome != svm.FOREVER:
                return ('below_smin', '%s: below the minimal stack size the run must end in stack_overflow,error; got flags %r (%s) output %r\n%s' % (
                    where, run.flags, run.outcome, run.out[:80], src))
            if not tt and not ref.output.startswith(run.out):
                return ('corrupt_prefix', '%s: output %r before the overflow is not a prefix of the reference output %r\n%s' % (
                    where, run.out[:120], ref.output[:120], src))
        if S == smin:
            stats.cls('runs_at_smin')
            if mon.min_gap is not None and mon.min_gap < ws and mon.min_gap_arrays > 0:
                stats.cls('exactly_full_with_live_array')
                stats.nt(case_hash([src, repr(vals), ws]))
    stats.cls('programs_ws%d' % ws)
    return None


def run_shard(k, seed, tier):
    stats = Stats()
    n = 130 if tier == 'quick' else 2500
    feats = (SEQ_FEATURES if k % 3 else ALL_FEATURES) - {'terminal'}
    strat = programs(features=feats, size=dict(main_stmts=10, funcs=4, arr_len=6, max_params=5, deep_before_vla_pct=40))

    def chk(case):
        if stats.evaluations % 200 == 0:
            stats.sample({'source': to_source(case[0])[:1500], 'argv': repr(case[1]), 'ws': case[2]})
        return check_case(stats, case)

    quiet = Stats()
    mini = program_minimizer(lambda v: check_case(quiet, v), lambda v: v, lambda v, p: (p, v[1], v[2]), max_evals=60)
    search(strat, chk, seed=derive_seed(seed, 'C04', k), max_examples=n, stats=stats, shrink=(tier == 'thorough'),
           minimizer=mini, to_case=lambda v, m: dict(case_json(*v), message=m, kind='program'))
    return stats


def replay(case):
    prog, vals, ws = case_from_json(case)
    try:
        r = check_case(Stats(), (prog, vals, ws))
    except Discard:
        return None
    return r[1] if r else None
