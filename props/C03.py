"""C03 - halt is defeat: a compiled program never halts on its committed timeline."""
from hypothesis import strategies as st

from gen.programs import programs, ALL_FEATURES, argv_strings
from harness.runner import Stats, case_hash
from harness.hyp import search, derive_seed, Discard
from harness.execute import S0, run_lines, compile_lines
from harness.progcase import case_json, case_from_json, program_minimizer
from harness import hidc_driver as H
from hast.printer import to_source
import hast
import svm

PROPERTY = 'C03'
RULE = ('Hypothesis-generated accepted programs (composite generator, and histories of try blocks built by the C02 state machine '
        'rules) of every flavour mix (ordinary/you/defeat functions, all control flow, '
        'try/undo/stop, preempt, ??, recursion, terminal calls, runtime faults), argv, word sizes {2,3,4,8}; checked '
        'build always, unchecked build when the checked run raised no fault flag. Oracle: the VM outcome must be a '
        'non-halting end state (win loop / error loop / state cycle); a halt with an empty choice stack is the '
        'violation; step-budget exhaustion is inconclusive and counted. No reference model is involved, so programs '
        'whose source-level meaning the reference cannot decide are included. Non-trivial: >=1 halt was reached '
        'speculatively and averted and the program contains defeat-context code (try body or defeat function). '
        'Distinct by hash of (source, argv, word size, checked/unchecked).')
ASSUMPTIONS = ['verification Sphinx VM: cycle detection by (pc, state hash) at taken jumps decides "runs forever" exactly',
               'machine faults (division by zero, address outside section) on an unchecked path are undefined behaviour: such cases are discarded']
MIN_NONTRIVIAL = 100
FAULT_FLAGS = {'stack_overflow', 'division_by_zero', 'out_of_bounds', 'nonlocal_preempt'}


def shards(tier):
    return list(range(12)) + [('machine', k) for k in range(4)]


def has_defeat_context(prog):
    return any(isinstance(n, hast.Try) for n in hast.walk(prog)) or any(f.name.startswith('!') for f in prog.funcs)


def check_case(stats, case):
    prog, vals, ws = case
    src = to_source(prog)
    args = argv_strings(vals)
    try:
        lines = compile_lines(src, ws, S0, False)
    except H.CompilerError as e:
        raise Discard('rejected: ' + type(e).__name__)
    run = run_lines(lines, args, budget=1_500_000)
    stats.evaluated()
    stats.cls('checked_ws%d' % ws)
    if run.outcome == svm.BUDGET:
        stats.cls('inconclusive_budget')
        raise Discard('vm budget')
    stats.cls('end_' + (','.join(run.flags[-2:]) if run.flags else 'cycle_without_flag'))
    if run.res is not None and run.res.averted and has_defeat_context(prog):
        stats.nt(case_hash([src, repr(vals), ws, 'checked']))
    if run.outcome != svm.FOREVER:
        return ('halt:checked', 'checked build ws=%d argv=%r ended %s after events %r\n%s' % (ws, vals, run.outcome, run.events[-8:], src))
    if run.res.faults:
        # a checked build must never let the machine itself fault, not even speculatively (C04 reports it)
        stats.cls('machine_fault_on_checked_path')
    if not (set(run.flags) & FAULT_FLAGS):
        lines_u = compile_lines(src, ws, S0, True)
        ru = run_lines(lines_u, args, budget=1_500_000)
        stats.evaluated()
        stats.cls('unchecked_ws%d' % ws)
        if ru.outcome == svm.BUDGET:
            raise Discard('vm budget (unchecked)')
        if ru.res is not None and ru.res.faults:
            raise Discard('machine fault in unchecked build (undefined behaviour)')
        if ru.res is not None and ru.res.averted and has_defeat_context(prog):
            stats.nt(case_hash([src, repr(vals), ws, 'unchecked']))
        if ru.outcome != svm.FOREVER:
            return ('halt:unchecked', 'unchecked build ws=%d argv=%r ended %s after events %r (checked run: %r)\n%s' % (
                ws, vals, ru.outcome, ru.events[-8:], run.flags, src))
    return None


def run_shard(k, seed, tier):
    stats = Stats()
    if isinstance(k, tuple):
        from props.c02_machine import run_machine
        run_machine(derive_seed(seed, 'C03', 'machine', k[1]), 120 if tier == 'quick' else 2000, stats, steps=8,
                    shrink=(tier == 'thorough'), mode='halt')
        stats.sample({'kind': 'state machine (histories of try blocks)', 'oracle': 'no committed halt'})
        return stats
    n = 500 if tier == 'quick' else 8000
    feats = ALL_FEATURES if k % 2 else ALL_FEATURES - {'faults', 'bigvals', 'terminal'}
    strat = programs(features=feats, size=dict(main_stmts=12, funcs=5))

    def chk(case):
        if stats.evaluations % 80 == 0:
            stats.sample({'source': to_source(case[0]), 'argv': repr(case[1]), 'ws': case[2]})
        return check_case(stats, case)

    quiet = Stats()
    mini = program_minimizer(lambda v: check_case(quiet, v), lambda v: v, lambda v, p: (p, v[1], v[2]))
    search(strat, chk, seed=derive_seed(seed, 'C03', k), max_examples=n, stats=stats, shrink=(tier == 'thorough'),
           minimizer=mini, to_case=lambda v, m: dict(case_json(*v), message=m, kind='program'))
    return stats


def replay(case):
    if case.get('kind') == 'machine':
        from harness.execute import execute
        r = execute(case['source'], [str(x) for x in case['argv']], ws=case['ws'], unchecked=case.get('unchecked', False))
        return None if r.outcome == svm.FOREVER else 'machine ended %s' % r.outcome
    prog, vals, ws = case_from_json(case)
    try:
        r = check_case(Stats(), (prog, vals, ws))
    except Discard:
        return None
    return r[1] if r else None
