"""C09 - operators and casts give the specified result at every boundary value."""
import itertools
import random

from harness.runner import Stats
from harness.execute import execute, S0

PROPERTY = 'C09'
RULE = ('Exhaustive grid: operator in {+ - * / % == != < <= > >= and or, unary + - not, is int, is byte, is bool, implicit '
        'byte->int, bool->byte->int, not over every comparison/logic operator, an arithmetic result (+ - *) compared with 0 / 1 / -1 on either side; also with one operand written as a literal in the source, '
        'including positive literals beyond the signed range; literals outside 0..255 implicitly narrowed into const bytes} x operand type combination {int*int, byte*byte, byte*int, int*byte, bool*bool} x all '
        'ordered pairs from a per-word-size boundary grid (0, +-1, 2, 127/128, 255/256/257, -128/-129, -255/-256, MIN, '
        'MIN+1, MAX, MAX-1 + seeded random values; bytes 0,1,2,127,128,254,255 + random) x usage position {value, recast '
        'to int, if-branch, while-condition, !truth_is_defeat under try/stop, the truth value stored in a bool inside a try body and deciding a later defeat, narrowed to byte and consumed as the index of a byte-array store, narrowed and consumed as a dynamic array length} x word size {2,3,4}. Operands are run-time '
        'values (elements of mutable global arrays, never folded) held in local variables and, for the unary and binary groups in the value / branch / defeat positions, also in non-const globals, used directly as array elements, and as parameters. Oracle: harness arithmetic (two\'s complement wrap, '
        'signed compare, zero extension, low-byte truncation, truthiness, strict 0/1 booleans, floored / and %); the '
        'positions must also agree with one another. Division by zero pairs are excluded (C05). Non-trivial: pairs with '
        'a value in {MIN, MAX, -1, 127, 128, 255, 256}. Distinct by (operator, types, position, word size, operands).')
ASSUMPTIONS = ['verification Sphinx VM (svm) with floored div/mod (calibrated against hidc\'s own constant folder, DESIGN 2.1)']
MIN_NONTRIVIAL = 1000

WORD_SIZES = (2, 3, 4)
EXTRA = [6]
BIN_ARITH = ['+', '-', '*', '/', '%']
BIN_CMP = ['==', '!=', '<', '<=', '>', '>=']
BIN_LOGIC = ['and', 'or']
POSITIONS = ['value', 'recast', 'if', 'while', 'defeat', 'defeat_value', 'index', 'length']
SCRATCH = 'byte[] T = [%s];\n' % ', '.join(['0'] * 256)


def sgn(v, ws):
    b = 8 * ws
    v &= (1 << b) - 1
    return v - (1 << b) if v >> (b - 1) else v


def int_grid(ws, rnd):
    hi = (1 << (8 * ws - 1)) - 1
    lo = -hi - 1
    g = [0, 1, -1, 2, 127, 128, 255, 256, 257, -128, -129, -255, -256, lo, lo + 1, hi, hi - 1, 10, -10, 7]
    g += [rnd.randint(lo, hi) for _ in range(EXTRA[0])]
    return g


def byte_grid(rnd):
    return [0, 1, 2, 127, 128, 254, 255, 10, 65] + [rnd.randint(0, 255) for _ in range(EXTRA[0] * 2 // 3)]


def grid(ty, ws, rnd):
    if ty == 'int':
        return int_grid(ws, rnd)
    if ty == 'byte':
        return byte_grid(rnd)
    return [0, 1]


def lit(ty, v):
    if ty == 'bool':
        return 'true' if v else 'false'
    if ty == 'int' and v < 0:
        return '-' + str(-v)
    return str(v)


def binop(op, x, y, ws):
    """-> ('int', value) | ('bool', value) | None if excluded"""
    if op in BIN_ARITH:
        if op in '/%' and y == 0:
            return None
        r = {'+': x + y, '-': x - y, '*': x * y}.get(op)
        if r is None:
            r = x // y if op == '/' else x % y
        return ('int', sgn(r, ws))
    if op in BIN_CMP:
        return ('bool', {'==': x == y, '!=': x != y, '<': x < y, '<=': x <= y, '>': x > y, '>=': x >= y}[op])
    if op == 'and':
        return ('bool', bool(x) and bool(y))
    if op == 'or':
        return ('bool', bool(x) or bool(y))
    raise ValueError(op)


def unop(op, ty, x, ws):
    if op == 'neg':
        return ('int', sgn(-x, ws))
    if op == 'pos':
        return ('int', sgn(x, ws))
    if op == 'not':
        return ('bool', not bool(x))
    if op == 'is int':
        return ('int', int(x))
    if op == 'is byte':
        return ('byte', int(x) & 0xFF)
    if op == 'is bool':
        return ('bool', bool(x))
    if op == 'implicit int':       # int z = b;  (byte -> int zero extension)
        return ('int', int(x))
    if op == 'bool byte int':      # ((b is byte) is int)
        return ('int', int(bool(x)))
    raise ValueError(op)


UNARY_SRC = {'neg': '-x', 'pos': '+x', 'not': 'not x', 'is int': 'x is int', 'is byte': 'x is byte',
             'is bool': 'x is bool', 'implicit int': 'z', 'bool byte int': '(x is byte) is int'}
UNARY_TYPES = {'neg': ['int', 'byte'], 'pos': ['int', 'byte'], 'not': ['int', 'byte', 'bool'],
               'is int': ['byte', 'bool'], 'is byte': ['int', 'bool'], 'is bool': ['int', 'byte'],
               'implicit int': ['byte'], 'bool byte int': ['bool']}


def body_for(position, expr, rty):
    """Statements printing the observation of `expr` (static result type rty) followed by ';'."""
    as_bool = expr if rty == 'bool' else '(%s) is bool' % expr
    if position == 'value':
        if rty == 'byte':
            return 'write((%s) is int); write(\';\');' % expr
        return 'write(%s); write(\';\');' % expr
    if position == 'recast':
        if rty == 'bool':
            return 'write((%s) is int); write(\';\');' % expr
        if rty == 'int':
            return 'write((%s) is byte is int); write(\';\');' % ('(%s)' % expr) if False else 'write(((%s) is byte) is int); write(\';\');' % expr
        return 'write(((%s) is bool) is int); write(\';\');' % expr
    if position == 'if':
        return 'if (%s) { write(\'T\'); } else { write(\'F\'); } write(\';\');' % expr
    if position == 'while':
        return 'int n = 0; while (%s) { n += 1; if (n >= 1) { break; } } write(n); write(\';\');' % expr
    if position == 'defeat':
        return 'try { !truth_is_defeat(%s); write(\'N\'); } stop { write(\'D\'); } write(\';\');' % as_bool
    if position == 'defeat_value':
        # the truth value is materialised as a bool *value* inside the try body and only then decides a later defeat
        return ('try { bool q = %s; write(\'v\'); !truth_is_defeat(q == true); write(\'N\'); } stop { write(\'D\'); } write(\';\');' % as_bool)
    as_byte = expr if rty == 'byte' else '(%s) is byte' % expr
    if position == 'index':
        # the narrowed result consumed as the index of a byte-array store (checked against the length, then used as offset)
        return 'T[%s] = 7; int kq = 0; while (T[kq] != 7) { kq += 1; } write(kq); T[kq] = 0; write(\';\');' % as_byte
    if position == 'length':
        return 'byte q[%s]; write(q.length); write(\';\');' % as_byte
    raise ValueError(position)


def expect_for(position, res):
    rty, v = res
    truth = bool(v)
    if position == 'value':
        if rty == 'bool':
            return 'true' if v else 'false'
        return str(int(v))
    if position == 'recast':
        if rty == 'bool':
            return '1' if v else '0'
        if rty == 'int':
            return str(int(v) & 0xFF)
        return '1' if truth else '0'
    if position == 'if':
        return 'T' if truth else 'F'
    if position == 'while':
        return '1' if truth else '0'
    if position == 'defeat':
        return 'D' if truth else 'N'
    if position == 'defeat_value':
        return 'vD' if truth else 'vN'
    if position in ('index', 'length'):
        return str(int(v) & 0xFF)


def program(ta, tb, xs, ys, stmts, unary=False, form='local'):
    """form: where the operands live when the operator is applied - 'local' variables, non-const 'global' variables,
    array 'elem'ents used directly, 'param'eters of a function that evaluates the expression."""
    import re as _re
    decl_a = '%s[] A = [%s];' % (ta, ', '.join(lit(ta, v) for v in xs))
    src = decl_a + '\n' + (SCRATCH if 'T[' in stmts else '')
    if not unary:
        src += '%s[] B = [%s];\n' % (tb, ', '.join(lit(tb, v) for v in ys))
    zdecl = '' if not unary else ('    int z = 0;\n' if ta != 'byte' else '    int z = x;\n')
    zero = {'int': '0', 'byte': "'\\0'", 'bool': 'false'}
    if form == 'global':
        src += '%s x = %s;\n' % (ta, zero[ta]) + ('' if unary else '%s y = %s;\n' % (tb, zero[tb]))
        src += 'empty @is_you() {\n  for (int i = 0; i < A.length; i += 1) {\n    x = A[i];\n'
        if not unary:
            src += '    y = B[i];\n'
        src += zdecl + '    ' + stmts + '\n  }\n}\n'
        return src
    if form == 'elem':
        body = _re.sub(r'\by\b', 'B[i]', _re.sub(r'\bx\b', 'A[i]', stmts))
        zd = _re.sub(r'\bx\b', 'A[i]', zdecl)
        return src + 'empty @is_you() {\n  for (int i = 0; i < A.length; i += 1) {\n' + zd + '    ' + body + '\n  }\n}\n'
    if form == 'param':
        sig = '%s x' % ta + ('' if unary else ', %s y' % tb)
        src += 'empty @apply(%s) {\n%s    %s\n}\n' % (sig, zdecl, stmts)
        src += 'empty @is_you() {\n  for (int i = 0; i < A.length; i += 1) {\n    @apply(A[i]%s);\n  }\n}\n' % ('' if unary else ', B[i]')
        return src
    src += 'empty @is_you() {\n  for (int i = 0; i < A.length; i += 1) {\n    %s x = A[i];\n' % ta
    if not unary:
        src += '    %s y = B[i];\n' % tb
    src += zdecl
    src += '    ' + stmts + '\n  }\n}\n'
    return src


def interesting(ws, *vals):
    hi = (1 << (8 * ws - 1)) - 1
    s = {hi, -hi - 1, -1, 127, 128, 255, 256}
    return any(v in s for v in vals)


def lit_values(ws, rnd):
    """Literal spellings: in-range values and positive literals beyond the signed range (they wrap, see test_ints)."""
    hi = (1 << (8 * ws - 1)) - 1
    vals = [0, 1, 2, 3, 7, 8, 10, 16, 255, 256, 257, 1000, hi, hi - 1, hi + 1, hi + 2, 2 * hi + 1, 2 * hi + 2, (hi + 1) // 2,
            -1, -2, -8, -256, -hi, -hi - 1]
    vals += [rnd.randint(-hi - 1, 2 * hi + 1) for _ in range(max(2, EXTRA[0] // 3))]
    return vals


def check_lit_group(stats, ws, kind, op, ta, tb, position, seed):
    """x OP <literal> (litright) or <literal> OP y (litleft): one program, all literals unrolled, looping over the run-time grid."""
    rnd = random.Random(seed * 1000003 + ws * 7 + 1)
    var_ty = ta if kind == 'litright' else tb
    xs = grid(var_ty, ws, rnd)
    lits = lit_values(ws, rnd)
    stmts = []
    exps_per_x = []
    for li, L in enumerate(lits):
        Lw = sgn(L, ws)
        if kind == 'litright' and op in '/%' and Lw == 0:
            continue
        lit_src = '(%s)' % lit('int', L) if L < 0 else str(L)
        expr = ('x %s %s' % (op, lit_src)) if kind == 'litright' else ('%s %s x' % (lit_src, op))
        rty = 'int' if op in BIN_ARITH else 'bool'
        body = body_for(position, expr, rty)
        body = body.replace('int n = 0;', 'int n%d = 0;' % li).replace('n += 1', 'n%d += 1' % li).replace('(n >= 1)', '(n%d >= 1)' % li).replace('write(n);', 'write(n%d);' % li)
        stmts.append((L, Lw, '{ ' + body + ' }'))
    src = '%s[] A = [%s];\n%sempty @is_you() {\n  for (int i = 0; i < A.length; i += 1) {\n    %s x = A[i];\n' % (
        var_ty, ', '.join(lit(var_ty, v) for v in xs), SCRATCH if position == 'index' else '', var_ty)
    src += ''.join('    ' + b + '\n' for _, _, b in stmts) + '  }\n}\n'
    exp = []
    cases = []
    for x in xs:
        for L, Lw, _ in stmts:
            if kind == 'litright':
                res = binop(op, x, Lw, ws)
            else:
                res = binop(op, Lw, x, ws)
            if res is None:
                # run-time divisor zero with a literal dividend: excluded (C05) - but the statement still runs; skip program
                return None
            exp.append(expect_for(position, res) + ';')
            cases.append((x, L))
    r = execute(src, [], ws=ws, S=S0, budget=60_000_000)
    stats.evaluated(len(cases))
    stats.cls('%s_%s' % (kind, position), len(cases))
    stats.cls('ws%d' % ws, len(cases))
    for x, L in cases:
        if interesting(ws, x, sgn(L, ws)) or not (-(1 << (8 * ws - 1)) <= L < (1 << (8 * ws - 1))):
            stats.nt('%s:%s:%s:%s:%d:%r:%r' % (kind, op, var_ty, position, ws, x, L))
    got = r.out.decode('latin-1')
    if got != ''.join(exp) or not r.won:
        parts = got.split(';')
        for k, ((x, L), e) in enumerate(zip(cases, exp)):
            if k >= len(parts) or parts[k] + ';' != e:
                msg = 'ws=%d %s `%s` with literal %d and run-time %s operand %r in position %s: expected %r got %r (flags %r)' % (
                    ws, kind, op, L, var_ty, x, position, e, parts[k] if k < len(parts) else None, r.flags)
                return {'kind': 'oplit', 'value': [ws, kind, op, ta, tb, position], 'message': msg, 'signature': '%s:%s:%s' % (kind, op, position)}
        return {'kind': 'oplit', 'value': [ws, kind, op, ta, tb, position], 'message': 'ws=%d %s %s: output ok, end state flags=%r' % (ws, kind, op, r.flags),
                'signature': '%s:%s:%s' % (kind, op, position)}
    return None


def check_group(stats, ws, kind, op, ta, tb, position, seed, form='local'):
    if kind in ('litright', 'litleft'):
        if kind == 'litleft' and op in '/%':
            return None     # a zero in the run-time grid would fault: covered by C05 and by the run-time/run-time groups
        return check_lit_group(stats, ws, kind, op, ta, tb, position, seed)
    rnd = random.Random(seed * 1000003 + ws)
    unary = kind == 'unary'
    if unary:
        pairs = [(x, None) for x in grid(ta, ws, rnd)]
    else:
        pairs = list(itertools.product(grid(ta, ws, rnd), grid(tb, ws, rnd)))
    exps = []
    keep = []
    notbin = kind == 'notbin'
    arithcmp = kind == 'arithcmp'
    if arithcmp:
        op1, cmp_, lit_s, side = op.split('|')
        lit_v = int(lit_s)
    for x, y in pairs:
        if arithcmp:
            inner = binop(op1, x, y, ws)[1]
            res = binop(cmp_, inner, lit_v, ws) if side == 'r' else binop(cmp_, lit_v, inner, ws)
        else:
            res = unop(op, ta, x, ws) if unary else binop(op, x, y, ws)
        if res is None:
            continue
        if notbin:
            res = ('bool', not res[1])
        keep.append((x, y))
        exps.append(expect_for(position, res))
    if arithcmp:
        lit_src = '(%s)' % lit('int', lit_v) if lit_v < 0 else str(lit_v)
        expr = ('x %s y %s %s' % (op1, cmp_, lit_src)) if side == 'r' else ('%s %s x %s y' % (lit_src, cmp_, op1))
    else:
        expr = UNARY_SRC[op] if unary else ('not (x %s y)' % op if notbin else 'x %s y' % op)
    rty = 'bool' if (notbin or arithcmp) else (unop(op, ta, keep[0][0], ws) if unary else binop(op, keep[0][0], keep[0][1], ws))[0]
    src = program(ta, tb, [p[0] for p in keep], [p[1] for p in keep], body_for(position, expr, rty), unary, form)
    r = execute(src, [], ws=ws, S=S0, budget=40_000_000)
    stats.evaluated(len(keep))
    stats.cls('%s_%s' % (kind, position), len(keep))
    if form != 'local':
        stats.cls('operands_' + form, len(keep))
    stats.cls('ws%d' % ws, len(keep))
    for (x, y) in keep:
        if interesting(ws, x, y if y is not None else 0):
            stats.nt('%s:%s:%s:%s:%d:%r:%r:%s' % (op, ta, tb, position, ws, x, y, form))
    got = r.out.decode('latin-1').split(';')
    if r.out.decode('latin-1') != ''.join(e + ';' for e in exps) or not r.won:
        bad = None
        for k, ((x, y), e) in enumerate(zip(keep, exps)):
            if k >= len(got) or got[k] != e:
                bad = (x, y, e, got[k] if k < len(got) else None)
                break
        msg = 'ws=%d `%s` with x:%s y:%s (operands: %s) in position %s: ' % (ws, expr, ta, tb, form, position)
        if bad:
            msg += 'x=%r y=%r expected %r got %r' % bad
        else:
            msg += 'output ok but end state flags=%r outcome=%s' % (r.flags, r.outcome)
        if bad:
            # single-pair replay program
            x, y, e, g = bad
            return {'kind': 'op', 'value': [ws, kind, op, ta, tb, position, x, y, form], 'message': msg, 'signature': '%s:%s:%s' % (op, position, form)}
        return {'kind': 'op', 'value': [ws, kind, op, ta, tb, position, None, None, form], 'message': msg, 'signature': '%s:%s:%s' % (op, position, form)}
    return None


CONST_BYTE_INITS = [0, 1, 255, 256, 257, 300, 511, 512, -1, -128, -255, -256, 0x1FF, 0x100, 65535, 65536]


def check_const_bytes(stats, ws):
    """`const byte K = <literal outside 0..255>` (implicit narrowing of a literal keeps the low byte) observed as a value, through
    a cast, as a branch and as a defeat condition, locally, globally and via another global's initialiser."""
    stmts = []
    exp = []
    glob = ''
    for i, v in enumerate(CONST_BYTE_INITS):
        lit_ = '(%d)' % v if v < 0 else str(v)
        b = v & 0xFF
        glob += 'const byte G%d = %s; byte H%d = G%d;\n' % (i, lit_, i, i)
        stmts.append('{ const byte K = %s; write(K is int); write(\',\'); write((K is int) + 1); write(\',\'); if (K) { write(\'T\'); } else { write(\'F\'); } '
                     'if (K < 1) { write(\'z\'); } else { write(\'p\'); } write(G%d is int); write(\',\'); write(H%d is int); '
                     'try { !truth_is_defeat(K is bool); write(\'N\'); } stop { write(\'D\'); } byte m = %s; write(m is int); write(\';\'); }' % (lit_, i, i, lit_))
        exp.append('%d,%d,%s%s%d,%d%s%d;' % (b, b + 1, 'T' if b else 'F', 'z' if b < 1 else 'p', b, b, 'D' if b else 'N', b))
    src = glob + 'empty @is_you() {\n' + '\n'.join('  ' + s_ for s_ in stmts) + '\n}\n'
    r = execute(src, [], ws=ws, S=S0, budget=5_000_000)
    stats.evaluated(len(CONST_BYTE_INITS))
    stats.cls('const_byte_inits', len(CONST_BYTE_INITS))
    for v in CONST_BYTE_INITS:
        stats.nt('constbyte:%d:%d' % (v, ws))
    got = r.out.decode('latin-1')
    if got != ''.join(exp) or not r.won:
        parts = got.split(';')
        bad = [(v, g, e) for v, g, e in zip(CONST_BYTE_INITS, parts, exp) if g + ';' != e][:4]
        return {'kind': 'constbyte', 'value': [ws], 'signature': 'constbyte',
                'message': 'ws=%d const byte initialised from literals outside 0..255: (literal, got, expected) %r; flags %r' % (ws, bad, r.flags)}
    return None


def groups():
    out = []
    for op in BIN_ARITH:
        for ta, tb in [('int', 'int'), ('byte', 'byte'), ('byte', 'int'), ('int', 'byte')]:
            out.append(('binary', op, ta, tb))
    for op in BIN_CMP:
        for ta, tb in [('int', 'int'), ('byte', 'byte'), ('byte', 'int'), ('int', 'byte')]:
            out.append(('binary', op, ta, tb))
        if op in ('==', '!='):
            out.append(('binary', op, 'bool', 'bool'))
    for op in BIN_LOGIC:
        for ta, tb in [('bool', 'bool'), ('int', 'int'), ('byte', 'int'), ('int', 'bool')]:
            out.append(('binary', op, ta, tb))
    for op, tys in UNARY_TYPES.items():
        for ta in tys:
            out.append(('unary', op, ta, None))
    # compositions that the lowerings special-case: not over a comparison / logic operator
    for op in BIN_CMP + BIN_LOGIC:
        out.append(('notbin', op, 'int', 'int'))
        if op in BIN_CMP:
            out.append(('notbin', op, 'byte', 'int'))
    # an arithmetic result compared with a small literal without parentheses (precedence puts the arithmetic first): the
    # comparison must look at the wrapped result, whatever shortcut the compiler takes for `x - y < 0`
    for op1 in ('+', '-', '*'):
        for cmp_ in BIN_CMP:
            for L, side in ((0, 'r'), (1, 'r'), (-1, 'r'), (0, 'l')):
                out.append(('arithcmp', '%s|%s|%d|%s' % (op1, cmp_, L, side), 'int', 'int'))
    # one operand is a literal in the source (immediates take different code paths than run-time operands)
    for op in BIN_ARITH + BIN_CMP:
        for ta in ('int', 'byte'):
            out.append(('litright', op, ta, 'int'))
            out.append(('litleft', op, 'int', ta))
    return out


def shards(tier):
    gs = groups()
    out = []
    for ws in WORD_SIZES:
        for k in range(6):
            out.append((ws, k, 6))
    return out


def run_shard(desc, seed, tier):
    ws, k, n = desc
    stats = Stats()
    EXTRA[0] = 6 if tier == 'quick' else 40
    gs = groups()
    if k == 0:
        v = check_const_bytes(stats, ws)
        if v:
            stats.violation(v)
    for gi, (kind, op, ta, tb) in enumerate(gs):
        if gi % n != k:
            continue
        for position in POSITIONS:
            if kind == 'arithcmp' and position not in ('value', 'if', 'defeat'):
                continue
            if position == 'defeat_value' and kind in ('litright', 'litleft'):
                continue
            if position in ('index', 'length') and (kind == 'notbin' or op in BIN_CMP or op in BIN_LOGIC or op in ('not', 'is bool')):
                continue        # bool results narrow to 0/1 only: the index/length positions are about int and byte results
            v = check_group(stats, ws, kind, op, ta, tb, position, seed)
            if v:
                stats.violation(v)
            if kind in ('unary', 'binary') and position in ('value', 'if', 'defeat', 'defeat_value'):
                for form in ('global', 'elem', 'param'):
                    v = check_group(stats, ws, kind, op, ta, tb, position, seed, form)
                    if v:
                        stats.violation(v)
        if gi % 12 == k:
            stats.sample({'operator': op, 'types': [ta, tb], 'ws': ws, 'positions': POSITIONS})
    stats.exhaustive = True
    return stats


def replay(case):
    if case.get('kind') == 'constbyte':
        v = check_const_bytes(Stats(), case['value'][0])
        return v['message'] if v else None
    if case.get('kind') == 'oplit':
        ws, kind, op, ta, tb, position = case['value']
        v = check_lit_group(Stats(), ws, kind, op, ta, tb, position, 1)
        return v['message'] if v else None
    vv = case['value']
    ws, kind, op, ta, tb, position, x, y = vv[:8]
    form = vv[8] if len(vv) > 8 else 'local'
    st_ = Stats()
    if x is None or kind == 'arithcmp':
        v = check_group(st_, ws, kind, op, ta, tb, position, 1, form)
        return v['message'] if v else None
    unary = kind == 'unary'
    res = unop(op, ta, x, ws) if unary else binop(op, x, y, ws)
    if res is None:
        return None
    if kind == 'notbin':
        res = ('bool', not res[1])
    expr = UNARY_SRC[op] if unary else ('not (x %s y)' % op if kind == 'notbin' else 'x %s y' % op)
    src = program(ta, tb, [x], [y], body_for(position, expr, res[0]), unary, form)
    r = execute(src, [], ws=ws, S=S0)
    exp = expect_for(position, res) + ';'
    if r.out.decode('latin-1') != exp or not r.won:
        return 'ws=%d `%s` x=%r y=%r position %s: expected %r got %r flags=%r' % (ws, expr, x, y, position, exp, r.out, r.flags)
    return None
