"""C11 - expressions group by the documented precedence and associativity."""
import itertools

from hypothesis import strategies as st

import hast
from hast import *  # noqa
from hast.printer import expr_tokens, count_needed_parens
from harness.runner import Stats, case_hash
from harness.hyp import search, derive_seed, Discard
from harness import hidc_driver as H
from ref import expr as RE
from ref import lex as RL

PROPERTY = 'C11'
RULE = ('Exhaustive: every ordered pair and triple of the 13 binary operators in every tree shape over variable leaves; for '
        'pairs additionally every unary (+ - not, also stacked), `is T` (all scalar types and T[]), postfix [i] / .length / '
        'call / array-literal decoration on every operand position, and ?? at the top; Hypothesis: random trees to depth 6 '
        'over all operators, postfix forms, calls, array literals and literals in every lexical form, unparenthesised runs of 8-160 operators of one precedence level, and single paths of 6-45 nested parentheses / index / call / array-literal constructs. Oracles: (i) round '
        'trip tree -> print with minimal parentheses -> hidc parse -> same tree (both through the expression rule and '
        'inside a whole program); (ii) the independent precedence-climbing parser ref/expr.py yields the same tree from the '
        'same text; (iii) printing with full parentheses gives the same tree, and omitting any one necessary pair gives a '
        'different tree or a parse error. Non-trivial: trees in which a binary operator has a child operator of equal or '
        'adjacent precedence, or a unary/is/postfix adjacent to a binary operator. Distinct by the printed text.')
ASSUMPTIONS = ['README operator table as implemented by hast/printer.py (minimal parentheses) and ref/expr.py',
               'the printer/reference closed loop is validated separately in selftest']
MIN_NONTRIVIAL = 1000

BINOPS = ['*', '/', '%', '+', '-', '==', '!=', '<', '<=', '>', '>=', 'and', 'or']
LEVEL = {'*': 6, '/': 6, '%': 6, '+': 5, '-': 5, '==': 4, '!=': 4, '<': 4, '<=': 4, '>': 4, '>=': 4, 'and': 3, 'or': 2}
HIDC_BIN = None


def canon(e):
    """hast expression -> tuple tree."""
    if isinstance(e, Lit):
        if e.kind == 'int':
            return ('int', e.value)
        if e.kind == 'char':
            return ('char', e.value)
        if e.kind == 'string':
            return ('str', e.value)
        return ('bool', bool(e.value))
    if isinstance(e, Var):
        return ('var', e.name)
    if isinstance(e, Paren):
        return canon(e.e)
    if isinstance(e, Un):
        return ('un', e.op, canon(e.e))
    if isinstance(e, Bin):
        return ('bin', e.op, canon(e.l), canon(e.r))
    if isinstance(e, Is):
        return ('is', canon(e.e), e.ty if not hast.is_arr(e.ty) else e.ty[1] + '[]')
    if isinstance(e, Spec):
        return ('spec', canon(e.l), canon(e.r))
    if isinstance(e, Index):
        return ('idx', canon(e.src), canon(e.idx))
    if isinstance(e, Len):
        return ('len', canon(e.src))
    if isinstance(e, Call):
        return ('call', e.name, [canon(a) for a in e.args])
    if isinstance(e, ArrLit):
        return ('arr', [canon(a) for a in e.elems])
    raise TypeError(e)


def from_hidc(n):
    from hidc import ast as A
    if isinstance(n, A.ByteValue):
        return ('char', n.data)
    if isinstance(n, A.IntValue):
        return ('int', n.data)
    if isinstance(n, A.StringValue):
        return ('str', bytes(n.data))
    if isinstance(n, A.BoolValue):
        return ('bool', bool(n.data))
    if isinstance(n, A.VariableLookup):
        return ('var', n.var.name)
    if isinstance(n, A.FuncCall):
        return ('call', str(n.func), [from_hidc(a) for a in n.args])
    if isinstance(n, A.ArrayLiteral):
        return ('arr', [from_hidc(a) for a in n.values])
    if isinstance(n, A.Speculation):
        return ('spec', from_hidc(n.left), from_hidc(n.right))
    if isinstance(n, A.Unary):
        return ('un', str(n.token), from_hidc(n.arg))
    if isinstance(n, A.Binary):
        return ('bin', str(n.token), from_hidc(n.left), from_hidc(n.right))
    if isinstance(n, A.Is):
        t = n.type
        return ('is', from_hidc(n.expr), str(t.el_type) + '[]' if isinstance(t, A.ArrayType) else str(t))
    if isinstance(n, A.ArrayLookup):
        return ('idx', from_hidc(n.source), from_hidc(n.index))
    if isinstance(n, A.LengthLookup):
        return ('len', from_hidc(n.source))
    raise TypeError('unmapped hidc node %r' % (n,))


def hidc_parse_expr(text):
    from hidc.parser.grammar import ps_expr, BlockContext
    from hidc.parser.rules import expect
    try:
        n = H.parse(H.SourceCode.from_string(text), expect(ps_expr(BlockContext.YOU)), False)
    except H.CompilerError as e:
        return ('error', '%s: %s' % (type(e).__name__, e))
    return from_hidc(n)


def hidc_parse_in_program(text):
    src = 'empty @is_you() {\n    v = %s;\n}\n' % text
    try:
        prog = H.parse(H.SourceCode.from_string(src))
    except H.CompilerError as e:
        return ('error', '%s: %s' % (type(e).__name__, e))
    return from_hidc(prog.func_decls[0].body.stmts[0].expr)


def join(toks):
    return ' '.join(toks)


def adjacent_interesting(t):
    """A binary node with an operator child of equal/adjacent precedence, or a unary/is/postfix child."""
    if not isinstance(t, tuple):
        return False
    if t[0] == 'bin':
        for ch in (t[2], t[3]):
            if ch[0] == 'bin' and abs(LEVEL[ch[1]] - LEVEL[t[1]]) <= 1:
                return True
            if ch[0] in ('un', 'is', 'idx', 'len', 'spec'):
                return True
    return any(adjacent_interesting(c) for c in t[1:] if isinstance(c, (tuple, list))) or \
        any(adjacent_interesting(x) for c in t[1:] if isinstance(c, list) for x in c)


def nested_spec(e, inside=False):
    if isinstance(e, Spec):
        if inside:
            return True
        return nested_spec(e.l, True) or nested_spec(e.r, True)
    if isinstance(e, hast.Node):
        for f in e.fields:
            v = getattr(e, f)
            if isinstance(v, hast.Node) and nested_spec(v, inside):
                return True
            if isinstance(v, list) and any(isinstance(x, hast.Node) and nested_spec(x, inside) for x in v):
                return True
    return False


def check_tree(stats, e, in_program=True):
    if nested_spec(e):
        # not a precedence matter: operands of ?? are an ordinary context (C06), where ?? is not allowed
        raise Discard('?? nested in an operand of ??')
    want = canon(e)
    text = join(expr_tokens(e, 'min'))
    stats.evaluated()
    if adjacent_interesting(want):
        stats.nt(text)
    got = hidc_parse_expr(text)
    if got != want:
        return ('roundtrip', '%r parses as %r, expected %r' % (text, got, want))
    try:
        ref = RE.parse_expr(text)
    except (RE.RefParseError, RL.RefLexError) as ex:
        ref = ('error', str(ex))
    if ref != got:
        return ('reference', '%r: reference parser gives %r, hidc %r' % (text, ref, got))
    if in_program:
        g2 = hidc_parse_in_program(text)
        if g2 != want:
            return ('in_program', '%r inside a program parses as %r, expected %r' % (text, g2, want))
    full = join(expr_tokens(e, 'full'))
    g3 = hidc_parse_expr(full)
    if g3 != want:
        return ('full_parens', 'fully parenthesised %r parses as %r, expected %r' % (full, g3, want))
    n = count_needed_parens(e, 'min')
    for k in range(n):
        less = join(expr_tokens(e, 'min', omit=k))
        g4 = hidc_parse_expr(less)
        stats.cls('necessary_pairs_removed')
        if g4 == want:
            return ('unnecessary', 'removing a parenthesis pair the table makes necessary does not change the tree: %r vs %r' % (less, text))
    return None


V = [Var(n) for n in 'abcd']


def shapes(ops, leaves):
    """All binary tree shapes with the operators in order over the leaves in order."""
    if not ops:
        return [leaves[0]]
    out = []
    for i in range(len(ops)):
        for l in shapes(ops[:i], leaves[:i + 1]):
            for r in shapes(ops[i + 1:], leaves[i + 1:]):
                out.append(Bin(ops[i], l, r))
    return out


def decorations(x):
    idx = Lit('int', 0, None)
    return [
        Un('-', x), Un('+', x), Un('not', x), Un('-', Un('-', x)), Un('not', Un('-', x)), Un('-', Un('not', x)),
        Is(x, INT), Is(x, BYTE), Is(x, BOOL), Is(x, STRING), Is(x, arr(BYTE, True)), Is(x, arr(INT, True)),
        Is(Un('-', x), BYTE), Un('-', Is(x, BYTE)), Is(Is(x, BYTE), INT), Un('not', Is(x, BOOL)),
        Index(x, idx), Len(x), Index(Index(x, idx), idx), Len(Index(x, idx)), Un('-', Index(x, idx)), Is(Len(x), BYTE),
        Un('-', Len(x)), Call('f', [x]), Index(Call('f', [x]), idx), ArrLit([x, idx]), Index(ArrLit([x, idx]), idx),
        Spec(x, idx), Index(Un('-', x), idx), Len(Is(x, arr(BYTE, True))), Index(Bin('+', x, idx), idx),
        Len(Call('f', [x])), Index(Index(Call('f', [x]), idx), idx), Un('-', Index(Call('f', [x]), idx)), Len(Index(Call('f', [x]), idx)),
        Call('f', [Index(Call('g', [x]), idx), idx]), Len(ArrLit([x, idx])), Index(Lit('string', b'ab', None), x), Len(Lit('string', b'ab', None)),
    ]


def enum_trees(part, nparts):
    k = 0
    for op1, op2 in itertools.product(BINOPS, BINOPS):
        for t in shapes([op1, op2], V[:3]):
            if k % nparts == part:
                yield t
            k += 1
        # decorations on each operand of the left-nested and right-nested shapes
        for pos in range(3):
            for d in decorations(V[pos]):
                leaves = list(V[:3])
                leaves[pos] = d
                for t in shapes([op1, op2], leaves):
                    if k % nparts == part:
                        yield t
                    k += 1
    for ops in itertools.product(BINOPS, repeat=3):
        for t in shapes(list(ops), V[:4]):
            if k % nparts == part:
                yield t
            k += 1
    for op in BINOPS:
        for d in decorations(V[0]):
            for t in (Spec(Bin(op, d, V[1]), V[2]), Spec(V[2], Bin(op, V[1], d)), Bin(op, Spec(d, V[1]), V[2]), Bin(op, V[2], Spec(V[1], d))):
                if k % nparts == part:
                    yield t
                k += 1


@st.composite
def rand_tree(draw, depth):
    if depth <= 0 or draw(st.integers(0, 9)) < 2:
        k = draw(st.integers(0, 9))
        if k < 4:
            return draw(st.sampled_from(V))
        if k == 4:
            v = draw(st.integers(0, 70000))
            text = draw(st.sampled_from([None, hex(v), bin(v), oct(v), '0' + str(v)]))
            return Lit('int', v, text)
        if k == 5:
            return Lit('char', draw(st.integers(0, 255)), None)
        if k == 6:
            return Lit('string', draw(st.binary(max_size=4)), None)
        if k == 7:
            return Lit('bool', draw(st.booleans()), None)
        if k == 8:
            return Call(draw(st.sampled_from(['f', 'g', 'write'])), [draw(rand_tree(depth - 1)) for _ in range(draw(st.integers(0, 2)))])
        return ArrLit([draw(rand_tree(depth - 1)) for _ in range(draw(st.integers(0, 3)))])
    k = draw(st.integers(0, 19))
    if k < 10:
        return Bin(draw(st.sampled_from(BINOPS)), draw(rand_tree(depth - 1)), draw(rand_tree(depth - 1)))
    if k < 13:
        return Un(draw(st.sampled_from(['-', '+', 'not'])), draw(rand_tree(depth - 1)))
    if k < 15:
        ty = draw(st.sampled_from([INT, BYTE, BOOL, STRING, arr(BYTE, True), arr(INT, True), arr(STRING, True)]))
        return Is(draw(rand_tree(depth - 1)), ty)
    if k < 17:
        return Index(draw(rand_tree(depth - 1)), draw(rand_tree(depth - 1)))
    if k == 17:
        return Len(draw(rand_tree(depth - 1)))
    if k == 18:
        return Spec(draw(rand_tree(depth - 1)), draw(rand_tree(depth - 1)))
    return Paren(draw(rand_tree(depth - 1)))


LEVELS = [['or'], ['and'], ['==', '!=', '<', '<=', '>', '>='], ['+', '-'], ['*', '/', '%']]


@st.composite
def long_run(draw):
    """A run of 8..160 binary operators of one precedence level without parentheses (left spine), operators drawn
    from the level, operands variables / literals / an occasional tighter-binding sub-term."""
    level = LEVELS[draw(st.integers(0, len(LEVELS) - 1))]
    n = draw(st.sampled_from([8, 20, 40, 62, 63, 64, 65, 66, 90, 128, 129, 160]))
    def operand():
        k = draw(st.integers(0, 9))
        if k < 6:
            return Var('abcd'[draw(st.integers(0, 3))])
        if k < 8:
            return Lit('int', draw(st.integers(0, 9)), None)
        if k == 8:
            return Un('-', Var('a'))
        return Index(Var('t'), Lit('int', 1, None))
    e = operand()
    for _ in range(n):
        e = Bin(level[draw(st.integers(0, len(level) - 1))], e, operand())
    return e


@st.composite
def deep_nest(draw):
    """One path of 6..45 nested bracketing constructs: right operands in parentheses (needed: a - (b - c)), index
    expressions, call arguments, array-literal elements, with unary operators sprinkled in."""
    depth = draw(st.sampled_from([6, 9, 10, 11, 12, 15, 20, 30, 45]))
    e = Var('z')
    for k in range(depth):
        c = draw(st.integers(0, 5))
        v = Var('abcd'[draw(st.integers(0, 3))])
        if c == 0:
            e = Bin(draw(st.sampled_from(['-', '/', '%'])), v, e if isinstance(e, Bin) else Bin('+', e, Lit('int', k % 10, None)))
        elif c == 1:
            e = Index(Var('t'), e)
        elif c == 2:
            e = Call('f', [e])
        elif c == 3:
            e = Index(ArrLit([e, Lit('int', 1, None)]), Lit('int', 0, None))
        elif c == 4:
            e = Bin('*', Bin('+', e, v), v)           # Horner step: (e + v) * v
        else:
            e = Un(draw(st.sampled_from(['-', 'not', '+'])), e)
    return e


def shards(tier):
    return [('enum', k, 12) for k in range(12)] + [('rand', k, 4) for k in range(4)] + [('runs', 0, 1), ('nest', 0, 1)]


def run_shard(desc, seed, tier):
    kind, part, nparts = desc
    stats = Stats()
    if kind == 'enum':
        n = 0
        for t in enum_trees(part, nparts):
            try:
                m = check_tree(stats, t, in_program=(n % 7 == 0))
            except Discard as d:
                stats.discard(d.why)
                continue
            n += 1
            if n % 2000 == 1:
                stats.sample({'kind': 'enumerated', 'text': join(expr_tokens(t, 'min')), 'tree': repr(canon(t))})
            if m:
                stats.violation({'kind': 'tree', 'tree': hast.to_json(t), 'message': m[1], 'signature': m[0]})
                if len(stats.violations) >= 5:
                    break
        stats.exhaustive = True
        return stats

    def chk(t):
        if stats.evaluations % 300 == 0:
            stats.sample({'kind': 'random', 'text': join(expr_tokens(t, 'min'))[:400]})
        return check_tree(stats, t)

    if kind == 'nest':
        def chk_nest(t):
            stats.cls('deep_nests')
            return chk(t)
        search(deep_nest(), chk_nest, seed=derive_seed(seed, 'C11', 'nest'), max_examples=250 if tier == 'quick' else 3000,
               stats=stats, to_case=lambda v, m: {'kind': 'tree', 'tree': hast.to_json(v), 'message': m[:3000], 'text': join(expr_tokens(v, 'min'))})
        return stats
    if kind == 'runs':
        def chk_run(t):
            stats.cls('long_runs')
            return chk(t)
        search(long_run(), chk_run, seed=derive_seed(seed, 'C11', 'runs'), max_examples=250 if tier == 'quick' else 3000,
               stats=stats, to_case=lambda v, m: {'kind': 'tree', 'tree': hast.to_json(v), 'message': m[:3000], 'text': join(expr_tokens(v, 'min'))})
        return stats

    search(rand_tree(6), chk, seed=derive_seed(seed, 'C11', part), max_examples=1500 if tier == 'quick' else 20000,
           stats=stats, to_case=lambda v, m: {'kind': 'tree', 'tree': hast.to_json(v), 'message': m, 'text': join(expr_tokens(v, 'min'))})
    return stats


def replay(case):
    t = hast.from_json(case['tree'])
    r = check_tree(Stats(), t)
    return r[1] if r else None
