"""C18 - builds are reproducible and options do not change meaning."""
import hashlib
import json
import os
import subprocess
import sys
import tempfile

from hypothesis import strategies as st

import hast
from gen.programs import programs, ALL_FEATURES, argv_strings
from harness.runner import Stats, case_hash, VERIF
from harness.hyp import search, derive_seed, Discard
from harness.execute import S0, run_lines, compile_lines, find_smin
from harness.progcase import case_json, case_from_json, program_minimizer, fmt_events, first_diff, reference_for
from harness import hidc_driver as H
from hast.printer import to_source
from ref.constfold import f4_pattern
import svm

PROPERTY = 'C18'
RULE = ('Hypothesis-generated programs (all features) plus the example corpus. (i) reproducibility: every program is '
        'compiled twice in process and in 6 fresh subprocesses with PYTHONHASHSEED in {0,1,12345,random} and, with further seeds, under python -O and -OO; all outputs must '
        'be byte-identical (or the same diagnostic). (ii) stack-size monotonicity: a run that does not overflow at S must '
        'behave identically at S_min, S_min+1, 2*S_min, 400, 4000 and the largest stack the word size allows (at 16 bit also 1, 4, 9 and 14 words below it); the small dynamic-array and write-site programs of the C04 grids are additionally run at every stack size from the first that does not overflow to six above it and compared with 400 words. (iii) word-size '
        'monotonicity: if the reference interpreter at word size w reports no wrap-around, the VM events at every wider '
        'w\' in {2,3,4,8} equal those at w; a grid of small dynamic-array programs is additionally run at every word size from 2 to 8 '
        'bytes (also the odd ones). (iv) lint: compiling with unreachable_error=True either raises '
        'TypeCheckError("Unreachable...") or yields byte-identical assembly. Non-trivial: program with >=3 functions, >=2 '
        'distinct string constants and >=2 globals (tables whose order could depend on hashing) for (i)/(iv); every '
        'multi-configuration comparison of a program with arrays for (ii)/(iii). Distinct by hash of (source, argv, sub-check).')
ASSUMPTIONS = ['verification Sphinx VM (svm)', 'reference interpreter only decides "values fit the narrower word"',
               'programs containing an out-of-range folded constant (known finding F4) are excluded from (iii)']
MIN_NONTRIVIAL = 50
SEEDS = ['0', '1', '12345', 'random', '7 -O', 'random -OO']      # hash seed [+ interpreter optimisation level]


def shards(tier):
    return [('det', k) for k in range(8)] + [('cfg', k) for k in range(7)] + [('wgrid', 0), ('sgrid', 0), ('sgrid', 1)]


def table_rich(prog):
    strings = {n.value for n in hast.walk(prog) if isinstance(n, hast.Lit) and n.kind == 'string'}
    return len(prog.funcs) >= 3 and len(strings) >= 2 and len(prog.globals) >= 2


def batch_hashes(items, hashseed):
    with tempfile.NamedTemporaryFile('w', suffix='.json', delete=False) as f:
        json.dump(items, f)
        path = f.name
    try:
        hs, _, opt = hashseed.partition(' ')
        env = dict(os.environ, PYTHONHASHSEED=hs)
        env.pop('PYTHONOPTIMIZE', None)
        if opt:
            env['PYTHONOPTIMIZE'] = str(len(opt) - 1)       # -O: assert statements are stripped; -OO: docstrings too
        r = subprocess.run([sys.executable, os.path.join(VERIF, 'tools', 'compile_batch.py'), path],
                           capture_output=True, text=True, env=env, timeout=600)
        if r.returncode != 0:
            raise RuntimeError('compile_batch failed: ' + r.stderr[-500:])
        return json.loads(r.stdout)
    finally:
        os.unlink(path)


def inproc_hash(it):
    try:
        lines = H.compile_source(it['src'], it['ws'], it['S'], it['unchecked'], unreachable_error=it.get('lint', False))
        return hashlib.sha256(b'\n'.join(lines)).hexdigest()
    except H.CompilerError as e:
        return 'ERR:%s:%s' % (type(e).__name__, e)


def corpus_items():
    out = []
    ex = os.path.join(H.HIDC_REPO, 'examples')
    for name in sorted(os.listdir(ex)):
        if name.endswith('.hid'):
            src = open(os.path.join(ex, name)).read()
            for ws in (2, 4):
                for unchecked in (False, True):
                    out.append({'src': src, 'ws': ws, 'S': 500, 'unchecked': unchecked, 'name': name})
    return out


def run_det(k, seed, tier, stats):
    """(i) + (iv): collect a batch of generated programs, then compare hashes across processes."""
    n = 100 if tier == 'quick' else 1500
    items = []
    metas = []

    def collect(case):
        prog, vals, ws = case
        src = to_source(prog)
        cfg = (len(items) % 4)
        it = {'src': src, 'ws': ws, 'S': [S0, 500, 37, 4000][cfg], 'unchecked': cfg == 2}
        items.append(it)
        metas.append((case, table_rich(prog)))
        return None

    search(programs(features=ALL_FEATURES, size=dict(funcs=6, globals=6)), collect,
           seed=derive_seed(seed, 'C18', 'det', k), max_examples=n, stats=stats, to_case=lambda v, m: {})
    if k == 0:
        for it in corpus_items():
            items.append(it)
            metas.append((None, True))
    # lint twins
    lint_items = [dict(it, lint=True) for it in items]
    base = [inproc_hash(it) for it in items]
    again = [inproc_hash(it) for it in items]
    lint = [inproc_hash(it) for it in lint_items]
    per_seed = {hs: batch_hashes(items, hs) for hs in SEEDS}
    for i, it in enumerate(items):
        stats.evaluated(2 + len(SEEDS))
        stats.cls('det_programs')
        case, rich = metas[i]
        if rich:
            stats.nt(case_hash([it['src'], it['ws'], it['S'], it['unchecked'], 'det']))
        if i % 40 == 0:
            stats.sample({'sub': 'determinism', 'source': it['src'][:1500], 'ws': it['ws'], 'S': it['S'], 'sha256': base[i][:80]})
        outs = {'in-process #1': base[i], 'in-process #2': again[i]}
        for hs in SEEDS:
            outs['PYTHONHASHSEED=' + hs] = per_seed[hs][i]
        if len(set(outs.values())) != 1:
            stats.violation({'kind': 'det', 'item': it, 'message': 'outputs differ between builds of the same source: %r\n%s' % (
                {k2: v[:60] for k2, v in outs.items()}, it['src']), 'signature': 'det'})
        # (iv) lint
        stats.evaluated()
        lv = lint[i]
        if lv.startswith('ERR:TypeCheckError:Unreachable'):
            stats.cls('lint_rejects')
        elif lv != base[i]:
            stats.violation({'kind': 'lint', 'item': it, 'message': 'lint changed the build: without %s, with lint %s\n%s' % (
                base[i][:80], lv[:80], it['src']), 'signature': 'lint'})
        else:
            stats.cls('lint_identical')


def max_stack(ws):
    return ((1 << (8 * ws - 1)) - 1) // ws - 5


def norm_events(events, ws):
    """sleep durations are words: compare them as signed values across word sizes."""
    half = 1 << (8 * ws - 1)
    return [(e[0], e[1] - 2 * half if e[0] == 'sleep' and e[1] >= half else e[1]) for e in events]


def check_cfg(stats, case, sub):
    prog, vals, ws = case
    src = to_source(prog)
    args = argv_strings(vals)
    has_arr = any(isinstance(n, (hast.ArrLit, hast.ArrDecl)) for n in hast.walk(prog))
    try:
        base = run_lines(compile_lines(src, ws, S0, False), args, budget=1_000_000)
    except H.CompilerError as e:
        raise Discard('rejected: ' + type(e).__name__)
    if base.outcome == svm.BUDGET:
        raise Discard('vm budget')
    if sub == 0:
        # (ii) stack sizes
        if base.overflowed:
            raise Discard('overflows at S0')
        smin = find_smin(src, args, ws)
        top = min(max_stack(ws), 20000)
        # near the largest stack the 16-bit target allows the globals behind the stack sit around address 0x8000
        sizes = sorted({smin, smin + 1, 2 * smin + 1, S0, 10 * S0, top} | ({top - 1, top - 4, top - 9, top - 14} if ws == 2 else set()))
        for S in sizes:
            r = run_lines(compile_lines(src, ws, S, False), args, budget=1_000_000)
            stats.evaluated()
            stats.cls('stack_runs')
            if r.outcome == svm.BUDGET:
                raise Discard('vm budget')
            if r.events != base.events or r.outcome != base.outcome:
                return ('stack', 'ws=%d argv=%r: run at S=%d differs from run at S=%d (S_min=%d): %s vs %s\n%s' % (
                    ws, vals, S, S0, smin, fmt_events(r.events), fmt_events(base.events), src))
        if has_arr:
            stats.nt(case_hash([src, repr(vals), ws, 'stack']))
        # S_min - 1 must overflow (definition of S_min; sanity of the search itself)
        return None
    # (iii) word sizes
    if f4_pattern(prog, ws):
        stats.known('F4')
        raise Discard('known F4')
    ref = reference_for(prog, vals, ws)
    if ref.kind in ('budget',) or ref.kind.startswith('undefined'):
        raise Discard('reference gave up')
    if ref.stats.get('wrapped'):
        stats.cls('word_wraps_at_w')
        raise Discard('values do not fit the narrower word')
    if base.overflowed:
        raise Discard('overflows at S0')
    wider = [w for w in (2, 3, 4, 8) if w > ws]
    for w2 in wider:
        if f4_pattern(prog, w2):
            continue
        r = run_lines(compile_lines(src, w2, S0, False), args, budget=1_000_000)
        stats.evaluated()
        stats.cls('word_runs')
        if r.outcome == svm.BUDGET:
            raise Discard('vm budget')
        if norm_events(r.events, w2) != norm_events(base.events, ws) or r.outcome != base.outcome:
            return ('word', 'argv=%r: run at word size %d differs from run at word size %d although no value wraps at %d: %s vs %s\n%s' % (
                vals, w2, ws, ws, fmt_events(r.events), fmt_events(base.events), src))
    if wider and has_arr:
        stats.nt(case_hash([src, repr(vals), ws, 'word']))
    return None


def run_shard(desc, seed, tier):
    kind, k = desc
    stats = Stats()
    if kind == 'det':
        run_det(k, seed, tier, stats)
        return stats
    if kind == 'sgrid':
        # stack-size monotonicity on the small dynamic-array / write-site programs of the C04 grids: find the first stack
        # size that does not overflow (scanning up from 0) and compare the runs just above it with a generous stack
        from props.C04 import vla_grid_programs, write_site_programs
        progs = vla_grid_programs() + write_site_programs()
        for pi, (name, src) in enumerate(progs):
            if pi % 2 != k or (tier == 'quick' and (pi // 2) % 3 != seed % 3 and not name.startswith('early_reenter')):
                continue
            for ws in ((2, 3) if tier == 'quick' else (2, 3, 4, 8)):
                for n in ((16,) if name.startswith('early') else (12345,)) if tier == 'quick' else ((3, 16) if name.startswith('early') else (7, 12345)):
                    big = run_lines(compile_lines(src, ws, S0, False), [str(n)], budget=400_000)
                    if big.outcome == svm.BUDGET or big.overflowed:
                        continue
                    first = None
                    for S in range(0, 200):
                        r = run_lines(compile_lines(src, ws, S, False), [str(n)], budget=400_000)
                        stats.evaluated()
                        stats.cls('stack_grid_runs')
                        if r.overflowed:
                            if first is not None:
                                stats.violation({'kind': 'sgrid', 'value': [name, ws, n], 'signature': 'sgrid:nonmonotone',
                                                 'message': '%s ws=%d n=%d: completes at stack size %d but overflows at the larger size %d\n%s' % (name, ws, n, first, S, src)})
                                break
                            continue
                        if first is None:
                            first = S
                        if r.events != big.events or r.outcome != big.outcome:
                            stats.violation({'kind': 'sgrid', 'value': [name, ws, n], 'signature': 'sgrid',
                                             'message': '%s ws=%d n=%d: at stack size %d (first size without overflow: %d) the run gives %s, at %d words %s\n%s' % (
                                                 name, ws, n, S, first, fmt_events(r.events), S0, fmt_events(big.events), src)})
                            break
                        if S >= first + 6:
                            stats.nt('sgrid:%s:%d:%d' % (name, ws, n))
                            break
        stats.sample({'kind': 'stack-size grid', 'programs': 'C04 dynamic-array and write-site grids', 'sizes': 'first non-overflowing size .. +6 vs 400'})
        return stats
    if kind == 'wgrid':
        # small programs around dynamic arrays / nested allocation (the C04 grid), every word size 2..8 bytes:
        # values stay tiny, so all word sizes must print the same
        from props.C04 import vla_grid_programs
        # plus: constant data reached through conversions whose address arithmetic involves the word size
        extra = [
            ('strbytes:literal', 'empty show(const byte[] p) { write(p.length); for (int i = 0; i < p.length; i += 1) { write(p[i]); } }\nempty @is_you(int n) { show("baba is you"); write("keke" is byte[]); const byte[] m = "flag"; write(m); write(m[n % 4]); }'),
            ('strbytes:const', 'const string GS = "wall is stop";\nempty show(const byte[] p) { write(p.length); write(p[0]); write(p[p.length - 1]); }\nempty @is_you(int n) { show(GS); write(GS is byte[]); write(GS[n]); write(GS.length); }'),
            ('strarr', 'const string[] SS = ["a", "bcd", "", "efgh"];\nempty @is_you(int n) { for (int i = 0; i < SS.length; i += 1) { write(SS[i]); write(SS[i].length); } string s = SS[n % 4]; write(s); write(s is byte[]); }'),
            ('consttab', 'const int[] T = [3, 1, 4, 1, 5, 9, 2, 6];\nconst bool[] B = [true, false, true, true, false, false, true, false, true];\nempty @is_you(int n) { write(T[n % 8]); write(T[7]); write(B[8]); write(B[n % 9]); write(T.length + B.length); }'),
        ]
        for pi, (name, src) in enumerate(vla_grid_programs() + extra):
            if tier == 'quick' and pi % 3 != seed % 3 and not name.startswith(('strbytes', 'strarr', 'consttab')):
                continue
            for n in (3, 9):
                base = None
                for ws in (2, 3, 4, 5, 6, 7, 8):
                    try:
                        r = run_lines(compile_lines(src, ws, S0, False), [str(n)], budget=400_000)
                    except H.CompilerError as e:
                        stats.violation({'kind': 'wgrid', 'value': [name, n], 'message': 'rejected at word size %d: %s\n%s' % (ws, e, src), 'signature': 'wgrid:reject'})
                        break
                    stats.evaluated()
                    stats.cls('word_grid_runs')
                    if base is None:
                        base = r
                    elif r.events != base.events or r.outcome != base.outcome:
                        stats.violation({'kind': 'wgrid', 'value': [name, n], 'signature': 'wgrid',
                                         'message': 'dynamic-array program %s n=%d: word size %d gives %s, word size 2 gives %s\n%s' % (
                                             name, n, ws, fmt_events(r.events), fmt_events(base.events), src)})
                        break
                else:
                    stats.nt('wgrid:%s:%d' % (name, n))
        stats.sample({'kind': 'word-size grid', 'word_sizes': [2, 3, 4, 5, 6, 7, 8]})
        return stats
    n = 120 if tier == 'quick' else 2500
    feats = ALL_FEATURES - {'bigvals'}
    strat = st.tuples(programs(features=feats, ws=None if k % 2 else 2), st.integers(0, 1))

    def chk(v):
        case, sub = v
        if stats.evaluations % 100 == 0:
            stats.sample({'sub': ['stack sizes', 'word sizes'][sub], 'source': to_source(case[0])[:1500], 'argv': repr(case[1]), 'ws': case[2]})
        return check_cfg(stats, case, sub)

    quiet = Stats()
    mini = program_minimizer(lambda v: check_cfg(quiet, v[0], v[1]), lambda v: v[0], lambda v, p: ((p, v[0][1], v[0][2]), v[1]))
    search(strat, chk, seed=derive_seed(seed, 'C18', 'cfg', k), max_examples=n, stats=stats, shrink=(tier == 'thorough'),
           minimizer=mini, to_case=lambda v, m: dict(case_json(*v[0]), sub=v[1], message=m, kind='cfg'))
    return stats


def replay(case):
    if case.get('kind') == 'wgrid':
        from props.C04 import vla_grid_programs
        name, n = case['value']
        src = dict(vla_grid_programs()).get(name)
        if src is None:
            return None     # the extra constant-data programs are re-run by every wgrid shard anyway
        base = run_lines(compile_lines(src, 2, S0, False), [str(n)], budget=400_000)
        for ws in (3, 4, 5, 6, 7, 8):
            r = run_lines(compile_lines(src, ws, S0, False), [str(n)], budget=400_000)
            if r.events != base.events or r.outcome != base.outcome:
                return 'word size %d differs from word size 2' % ws
        return None
    if case.get('kind') == 'sgrid':
        from props.C04 import vla_grid_programs, write_site_programs
        name, ws, n = case['value']
        src = dict(vla_grid_programs() + write_site_programs())[name]
        big = run_lines(compile_lines(src, ws, S0, False), [str(n)], budget=400_000)
        first = None
        for S in range(0, 200):
            r = run_lines(compile_lines(src, ws, S, False), [str(n)], budget=400_000)
            if r.overflowed:
                if first is not None:
                    return 'overflows at %d although %d completes' % (S, first)
                continue
            if first is None:
                first = S
            if r.events != big.events or r.outcome != big.outcome:
                return 'stack size %d differs from %d words' % (S, S0)
            if S >= first + 6:
                break
        return None
    if case.get('kind') in ('det', 'lint'):
        it = case['item']
        outs = {inproc_hash(it), inproc_hash(it)} | {batch_hashes([it], hs)[0] for hs in SEEDS}
        if case['kind'] == 'det':
            return None if len(outs) == 1 else 'outputs differ between builds: %r' % outs
        lv = inproc_hash(dict(it, lint=True))
        if lv.startswith('ERR:TypeCheckError:Unreachable') or lv == inproc_hash(it):
            return None
        return 'lint changed the build'
    prog, vals, ws = case_from_json(case)
    try:
        r = check_cfg(Stats(), (prog, vals, ws), case.get('sub', 0))
    except Discard:
        return None
    return r[1] if r else None
