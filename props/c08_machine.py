"""C08 state machine (ScopeHistory): the history explored is what one loop does iteration after iteration.

The program is one counted loop in @is_you (and the same loop in a helper function); rules append *segments* to the
loop body, each guarded by the phase `ph = it % P`, so that iteration it takes the exit route the schedule prescribes
for its phase (all sizes and values depend on the phase only, so the run is periodic): fall through, continue, break-free early end of a nested block, return from a callee holding arrays, defeat
caught by a stop block from call depth 0-2, continue / break out of a try body or a handler - with arrays (literal with
a run-time element, dynamic, passed down) allocated in the loop body, in nested blocks and in callees.

After every rule the invariant (a) runs the program under the frame and entitlement monitors and compares the events
with the reference interpreter, and (b) runs the *same schedule* for P and for 3P iterations and demands the same
minimal stack size: the footprint of a loop must not depend on how many iterations ran (a leak of w bytes per period
makes S_min grow with the count).
"""
import hypothesis
from hypothesis import strategies as st, settings, HealthCheck, Phase
from hypothesis.stateful import RuleBasedStateMachine, rule, invariant, initialize

import svm
from svm.monitors import FrameMonitor, MemMonitor
from harness.execute import compile_lines, run_lines, find_smin, S0
from harness.progcase import reference_for, fmt_events
from harness.hyp import Discard
from harness import hidc_driver as H
from ref.parse import parse_program
from ref.types import check_program

PRELUDE = r'''
int g0 = 0; int[] ga = [1, 2, 3];
int sum(const int[] a) { int s = 0; for (int i = 0; i < a.length; i += 1) { s += a[i]; } return s; }
int early(int k) { int[] t = [k, 2, 3]; if (k > 1) { int[] u = [k, k]; return u[0] + t[1]; } byte b[k + 1]; b[0] = 'x'; return t[0]; }
int deep(int k) { int[] t = [k, 7]; if (k <= 0) { return t[1]; } return deep(k - 1) + t[0]; }
empty !d0(int x) { int[] t = [x, 1, 2]; write(t[0]); !truth_is_defeat(x > 1); write(t[2]); }
empty !d1(int x) { byte v[x + 2]; v[0] = 'a'; !d0(x); write(v[0]); }
empty !d2(int x) { int[] w = [x, x]; !d1(x); write(w[1]); }
int !dv(int x) { int[] q = [x, 3]; !truth_is_defeat(x > 2); return q[0]; }
empty !dl(int n, int bad) { for (int i = 0; i < n; i += 1) { int[] z = [i, n]; write(z[0]); preempt { write('c'); continue; } } int w = 2; while (w > 0) { w -= 1; byte y[n]; y[0] = 'y'; preempt { break; } } !truth_is_defeat(bad > 0); }
empty !dp(int x) { int[] q = [x, 4]; { byte r[x + 1]; r[0] = 'r'; preempt { write('p'); return; } } !truth_is_defeat(x > 1); write(q[1]); }
'''

SMALL = st.integers(0, 3)


class Failure(Exception):
    pass


def fmt(t, **kw):
    return t % kw


class ScopeHistory(RuleBasedStateMachine):
    last_failure = None
    stats = None

    def __init__(self):
        super().__init__()
        self.segments = []
        self.P = 2
        self.ws = 2
        self.u = 0
        self.checked_upto = -1
        self.in_func = False
        self.reentrant = False

    @initialize(P=st.integers(2, 4), ws=st.sampled_from([2, 2, 3, 4]), in_func=st.booleans())
    def init(self, P, ws, in_func):
        self.P = P
        self.ws = ws
        self.in_func = in_func

    def uid(self):
        self.u += 1
        return self.u

    def guard(self, k):
        return 'ph == %d' % (k % self.P)

    # ---- segments -------------------------------------------------------------------------------------------
    @rule(k=SMALL, el=st.sampled_from(['int', 'byte', 'bool']))
    def alloc_in_body(self, k, el):
        u = self.uid()
        lit_ = {'int': '[ph, %d, 3]' % k, 'byte': "[(ph + 65) is byte, 'b']", 'bool': '[ph > %d, true, false]' % k}[el]
        show = {'int': 'write(a%d[0]);', 'byte': 'write(a%d[0]);', 'bool': 'write(a%d[0]);'}[el] % u
        self.segments.append('%s[] a%d = %s; %s' % (el, u, lit_, show))

    @rule(k=SMALL, n=SMALL)
    def vla_in_body(self, k, n):
        u = self.uid()
        self.segments.append('int v%d[ph + %d]; v%d[0] = %d; write(v%d.length);' % (u, n + 1, u, k, u))

    @rule(k=SMALL, route=st.sampled_from(['continue', 'fall', 'inner_fall']))
    def block_with_exit(self, k, route):
        u = self.uid()
        ex = {'continue': 'continue;', 'fall': '', 'inner_fall': '{ int[] c%d = [ph, 4]; write(c%d[1]); }' % (u, u)}[route]
        self.segments.append('if (%s) { int[] b%d = [ph, %d]; write(b%d[0]); %s }' % (self.guard(k), u, k, u, ex))

    @rule(k=SMALL, depth=st.integers(0, 2), kind=st.sampled_from(['stop', 'undo']), after=st.sampled_from(['', 'continue;']))
    def caught_defeat(self, k, depth, kind, after):
        u = self.uid()
        self.segments.append('if (%s) { int[] e%d = [ph, 5]; try { byte f%d[ph + 1]; f%d[0] = \'f\'; write(\'<\'); !d%d(ph + %d); write(\'>\'); } %s { write(\'H\'); %s } write(e%d[1]); }' % (
            self.guard(k), u, u, u, depth, k, kind, after, u))

    @rule(k=SMALL, route=st.sampled_from(['continue', 'fall']), where=st.sampled_from(['body', 'handler']))
    def exit_from_try(self, k, route, where):
        u = self.uid()
        ex = 'continue;' if route == 'continue' else ''
        if where == 'body':
            self.segments.append('if (%s) { try { int[] t%d = [ph, 6]; write(t%d[1]); !truth_is_defeat(ph < 0); %s } stop { write(\'h\'); } }' % (self.guard(k), u, u, ex))
        else:
            self.segments.append('if (%s) { try { int[] t%d = [ph, 6]; write(t%d[1]); !is_defeat(); } stop { int[] h%d = [ph]; write(h%d[0]); %s } }' % (self.guard(k), u, u, u, u, ex))

    @rule(k=SMALL, depth=st.integers(0, 2), kind=st.sampled_from(['stop', 'undo']))
    def caught_defeat_no_own_alloc(self, k, depth, kind):
        # the try body allocates nothing itself; the arrays live in the callees when defeat is reached
        u = self.uid()
        self.segments.append('if (%s) { try { write(\'(\'); !d%d(ph + %d); write(\')\'); } %s { write(\'H\'); } }' % (self.guard(k), depth, k, kind))

    @rule(k=SMALL, route=st.sampled_from(['continue', 'break_inner', 'return_callee']))
    def bare_exit(self, k, route):
        # an exit from a block that declares nothing itself, directly before the end of the enclosing block
        u = self.uid()
        if route == 'continue':
            self.segments.append('if (%s) { continue; }' % self.guard(k))
        elif route == 'break_inner':
            self.segments.append('for (int j%d = 0; j%d < 2; j%d += 1) { int[] m%d = [j%d, ph]; g0 += m%d[0]; if (j%d == %d) { break; } }' % (u, u, u, u, u, u, u, k % 2))
        else:
            self.segments.append('g0 += early(ph);')

    @rule(k=SMALL, k2=SMALL, kind=st.sampled_from(['stop', 'undo']), ex=st.sampled_from(['continue;', 'return;', '!is_defeat();']))
    def exiting_preempt(self, k, k2, kind, ex):
        # a block in defeat context that ends in a preempt which always leaves; whether its cleanup runs depends on the preempt
        u = self.uid()
        if ex == 'return;':
            self.segments.append('if (%s) { try { write(\'[\'); !dp(ph + %d); write(\']\'); } %s { write(\'H\'); } }' % (self.guard(k), k2, kind))
        else:
            self.segments.append('if (%s) { try { int[] x%d = [ph, 2]; { byte y%d[ph + 1]; y%d[0] = \'y\'; preempt { write(\'p\'); %s } } !truth_is_defeat(ph == %d); write(x%d[1]); } %s { write(\'H\'); } }' % (
                self.guard(k), u, u, u, ex, k2 % self.P, u, kind))

    @rule(k=SMALL, k2=SMALL, kind=st.sampled_from(['stop', 'undo']))
    def defeat_only_in_condition(self, k, k2, kind):
        # the try body never completes (it continues) and its only defeat call sits in a condition; the try is the last
        # statement of a block that owns an array
        u = self.uid()
        self.segments.append('if (%s) { for (int j%d = 0; j%d < 3; j%d += 1) { int[] o%d = [ph, j%d]; try { if (!dv(j%d + %d) > 0) { write(\'y\'); } break; } %s { write(\'H\'); } } }' % (
            self.guard(k), u, u, u, u, u, u, k2, kind))

    @rule(k=SMALL, bad=st.integers(0, 1), kind=st.sampled_from(['stop', 'undo']))
    def loop_in_defeat_function(self, k, bad, kind):
        # loops inside a defeat function whose bodies own an array and end in an always-exiting preempt
        self.segments.append('if (%s) { try { !dl(ph + 2, %d); write(\'l\'); } %s { write(\'H\'); } }' % (self.guard(k), bad, kind))

    @rule(k=SMALL)
    def reenter_entry(self, k):
        # the entry point is an ordinary you-function: a nested activation (it returns early, holding an array) must leave
        # the caller's frame and arrays as they were
        self.reentrant = True
        u = self.uid()
        self.segments.append('if (%s) { int[] q%d = [ph, 7]; @is_you(100 + ph); write(q%d[1]); }' % (self.guard(k), u, u))

    @rule(k=SMALL, f=st.sampled_from(['early', 'deep', 'sum']))
    def call_with_arrays(self, k, f):
        call = {'early': 'early(ph)', 'deep': 'deep(%d)' % k, 'sum': 'sum([ph, %d, g0])' % k}[f]
        self.segments.append('write(%s);' % call)

    @rule(k=SMALL)
    def nested_loop(self, k):
        u = self.uid()
        self.segments.append('for (int j%d = 0; j%d < 3; j%d += 1) { int[] n%d = [j%d, ph]; if (j%d == %d) { continue; } if (j%d + ph == 4) { break; } write(n%d[0]); }' % (
            u, u, u, u, u, u, k % 3, u, u))

    # ---- program --------------------------------------------------------------------------------------------
    def source(self, periods):
        body = '\n'.join('      ' + s for s in self.segments)
        loop = '  for (int it = 0; it < n; it += 1) {\n    int ph = it %% %d;\n    write(\'|\');\n    {\n%s\n    }\n    g0 += 1;\n  }\n' % (self.P, body)
        entry_guard = '  if (n >= 100) { int[] rr = [n, 3]; byte rv[n - 99]; rv[0] = \'v\'; write(rr[1]); return; }\n' if self.reentrant else ''
        if self.in_func:
            return PRELUDE + 'empty @run(int n) {\n  int[] keep = [n, 9];\n%s  write(keep[1]);\n}\nempty @is_you(int n) {\n%s  int[] outer = [n, 8];\n  @run(n);\n  write(outer[1]); write(g0);\n}\n' % (loop, entry_guard)
        return PRELUDE + 'empty @is_you(int n) {\n%s  int[] keep = [n, 9];\n%s  write(keep[1]); write(g0);\n}\n' % (entry_guard, loop)

    def fail(self, sig, msg, src, n):
        type(self).last_failure = {'kind': 'machine', 'source': src, 'argv': [n], 'ws': self.ws, 'message': msg + '\n' + src, 'signature': 'scope-machine:' + sig}
        raise Failure(msg)

    @invariant()
    def releases_exactly(self):
        if len(self.segments) == self.checked_upto:
            return
        self.checked_upto = len(self.segments)
        st_ = type(self).stats
        src = self.source(1)
        n1, n3 = self.P, 3 * self.P
        try:
            prog = parse_program(src)
            check_program(prog)
        except Exception as e:   # noqa: the machine only builds well-typed programs; anything else is a harness error
            raise AssertionError('scope machine built an ill-formed program: %s\n%s' % (e, src))
        smins = []
        for n in (n1, n3):
            ref = reference_for(prog, [n], self.ws, budget=400_000, stack_words=10 ** 6)
            if ref.kind != 'win':
                if st_ is not None:
                    st_.discard('scope machine: reference ' + ref.kind[:30])
                return
            try:
                lines = compile_lines(src, self.ws, S0, False)
            except H.CompilerError as e:
                self.fail('rejected', 'ws=%d: program rejected: %s' % (self.ws, e), src, n)
            run = run_lines(lines, [str(n)], budget=3_000_000)
            if run.outcome == svm.BUDGET or run.res is None:
                if st_ is not None:
                    st_.discard('scope machine: vm budget')
                return
            fm, mm = FrameMonitor(run.prog), MemMonitor(run.prog)
            svm.VM(run.prog).replay(run.res.decisions, fm, max_steps=run.res.steps + 10)
            svm.VM(run.prog).replay(run.res.decisions, mm, max_steps=run.res.steps + 10)
            if st_ is not None:
                st_.evaluated()
                st_.cls('scope_machine_steps')
            where = 'ws=%d n=%d (period %d) after %d segments' % (self.ws, n, self.P, len(self.segments))
            if fm.violations:
                pc, what, ins, stmt, fn = fm.violations[0]
                self.fail('frames', '%s: %s [pc %d `%s`; %s]' % (where, what, pc, ins, stmt), src, n)
            if mm.violations:
                pc, what, ins, stmt, fn = mm.violations[0]
                self.fail('mem', '%s: %s [pc %d `%s`; %s]' % (where, what, pc, ins, stmt), src, n)
            if run.events != ref.events or run.outcome != svm.FOREVER:
                self.fail('diff', '%s: events %s, reference %s' % (where, fmt_events(run.events), fmt_events(ref.events)), src, n)
            smin = find_smin(src, [str(n)], self.ws)
            smins.append(smin)
        if smins[0] is not None and smins[1] is not None:
            if st_ is not None and len(self.segments) >= 2:
                st_.nt('SM:%d:%d:%s' % (self.ws, self.P, '|'.join(self.segments)))
            if smins[0] != smins[1]:
                self.fail('footprint', 'ws=%d period %d after %d segments: minimal stack size is %d words for %d iterations but %d words for %d iterations '
                          '(the same schedule repeated three times)' % (self.ws, self.P, len(self.segments), smins[0], n1, smins[1], n3), src, n3)


def run_machine(seed, max_examples, stats, steps=6, shrink=True):
    ScopeHistory.stats = stats
    ScopeHistory.last_failure = None
    phases = [Phase.generate] + ([Phase.shrink] if shrink else [])
    cfg = settings(max_examples=max_examples, stateful_step_count=steps, database=None, deadline=None, derandomize=False,
                   report_multiple_bugs=False, suppress_health_check=list(HealthCheck), phases=phases, print_blob=False,
                   verbosity=hypothesis.Verbosity.quiet)
    machine = hypothesis.seed(seed)(ScopeHistory)
    try:
        hypothesis.stateful.run_state_machine_as_test(machine, settings=cfg)
    except Failure:
        if ScopeHistory.last_failure is not None:
            stats.violation(ScopeHistory.last_failure)
    finally:
        ScopeHistory.stats = None


def replay_machine(case):
    from harness.progcase import check_source_program
    src, n, ws = case['source'], case['argv'][0], case['ws']
    try:
        v = check_source_program(src, [n], ws, ref_budget=400_000)
    except Discard:
        return None
    if v.status != 'agree':
        return v.msg
    lines = compile_lines(src, ws, S0, False)
    img = svm.assemble(lines, [str(n)])
    res = svm.VM(img).run(3_000_000)
    for M in (FrameMonitor, MemMonitor):
        m = M(img)
        svm.VM(img).replay(res.decisions, m, max_steps=res.steps + 10)
        if m.violations:
            return '%s: %s' % (M.__name__, m.violations[0][1])
    # footprint twin: the schedule period is recoverable from the guards
    import re
    ps = [int(x) for x in re.findall(r'int ph = it % (\d);', src)] or [2]
    P = max(ps)
    a, b = find_smin(src, [str(P)], ws), find_smin(src, [str(3 * P)], ws)
    if a is not None and b is not None and a != b:
        return 'minimal stack size %d for %d iterations, %d for %d' % (a, P, b, 3 * P)
    return None
