"""C01 - compiled code computes what the source says (sequential core)."""
from hypothesis import strategies as st

from gen.programs import programs, SEQ_FEATURES
from harness.runner import Stats, case_hash
from harness.hyp import search, derive_seed, Discard
from harness.execute import S0, find_smin
from harness.progcase import check_program, case_json, case_from_json, program_minimizer
from hast.printer import to_source
from gen.programs import argv_strings

PROPERTY = 'C01'
RULE = ('Hypothesis composite generator of well-typed sequential HiD programs (no try/preempt/??) with argv, word size '
        'in {2,3,4,8}; each compiled by hidc (checked), run on the verification VM at a generous stack (400 words) and, '
        'for a quarter of the cases, also at the minimal stack size S_min found by binary search; committed event '
        'stream (output bytes, flags, sleeps) and end state compared with the source-level reference interpreter. '
        'Non-trivial: the reference run made >=1 user call, took >=1 branch and skipped >=1 branch, printed >=8 bytes '
        'and exercised at least one of: compound assignment, array element write, short-circuit skip, overload '
        'resolution among >1 candidates, call depth >=3. Distinct by hash of (source, argv, word size).')
ASSUMPTIONS = ['verification Sphinx VM (svm) as calibrated in DESIGN.md 2.1 (floored div/mod)',
               'reference interpreter ref/interp.py reads README.rst + property text',
               'programs containing an out-of-range folded constant (known finding F4) are excluded by construction']
MIN_NONTRIVIAL = 100


def shards(tier):
    return list(range(16))


def nontrivial(ref):
    s = ref.stats
    return (s['calls'] > 1 and s['branches_taken'] >= 1 and s['branches_not_taken'] >= 1 and len(ref.output) >= 8 and
            (s['aug'] or s['elem_write'] or s['short_circuit'] or s['overload'] or s['max_depth'] >= 3))


def check_case(stats, case, tight):
    prog, vals, ws = case
    v = check_program(prog, vals, ws, S=S0, stats=stats)
    stats.evaluated()
    stats.cls('ws%d' % ws)
    stats.cls('ref_' + v.ref.kind.split(':')[0])
    if v.ref.kind.startswith('fault'):
        stats.cls('ref_' + v.ref.kind)
    for k in ('aug', 'elem_write', 'short_circuit', 'overload'):
        if v.ref.stats[k]:
            stats.cls('feature_' + k)
    if v.ref.stats['max_depth'] >= 3:
        stats.cls('feature_depth3')
    if nontrivial(v.ref):
        stats.nt(case_hash([v.src, repr(vals), ws]))
    if v.status != 'agree':
        return (v.sig, 'ws=%d S=%d argv=%r: %s\n%s' % (ws, S0, vals, v.msg, v.src))
    if tight and v.ref.kind == 'win':
        smin = find_smin(v.src, argv_strings(vals), ws)
        if smin is None:
            return ('overflow_at_S0', 'run overflows at S0 but not per reference\n' + v.src)
        v2 = check_program(prog, vals, ws, S=smin, stats=stats)
        stats.evaluated()
        stats.cls('at_smin')
        if v2.status != 'agree':
            return ('smin:' + str(v2.sig), 'ws=%d S=%d (=S_min) argv=%r: %s\n%s' % (ws, smin, vals, v2.msg, v2.src))
    return None


def run_shard(k, seed, tier):
    stats = Stats()
    n = 400 if tier == 'quick' else 6000
    strat = st.tuples(programs(features=SEQ_FEATURES), st.integers(0, 3))

    def chk(value):
        case, t = value
        if stats.evaluations % 60 == 0:
            stats.sample({'source': to_source(case[0]), 'argv': repr(case[1]), 'ws': case[2]})
        return check_case(stats, case, t == 0)

    quiet = Stats()
    mini = program_minimizer(lambda v: check_case(quiet, v[0], v[1] == 0), lambda v: v[0],
                             lambda v, p: ((p, v[0][1], v[0][2]), v[1]))
    search(strat, chk, seed=derive_seed(seed, 'C01', k), max_examples=n, stats=stats,
           shrink=(tier == 'thorough'), minimizer=mini,
           to_case=lambda v, m: dict(case_json(*v[0]), tight=(v[1] == 0), message=m, kind='program'))
    return stats


def replay(case):
    prog, vals, ws = case_from_json(case)
    try:
        r = check_case(Stats(), (prog, vals, ws), case.get('tight', False))
    except Discard as d:
        return None
    return r[1] if r else None
