"""C01 - compiled code computes what the source says (sequential core)."""
from hypothesis import strategies as st

from gen.programs import programs, SEQ_FEATURES
from harness.runner import Stats, case_hash
from harness.hyp import search, derive_seed, Discard
from harness.execute import S0, find_smin
from harness.progcase import check_program, case_json, case_from_json, program_minimizer
from hast.printer import to_source
from gen.programs import argv_strings

PROPERTY = 'C01'
RULE = ('Hypothesis composite generator of well-typed sequential HiD programs (no try/preempt/??) with argv, word size '
        'in {2,3,4,8}; each compiled by hidc (checked), run on the verification VM at a generous stack (400 words) and, '
        'for a quarter of the cases, also at the minimal stack size S_min found by binary search; committed event '
        'stream (output bytes, flags, sleeps) and end state compared with the source-level reference interpreter. '
        'Non-trivial: the reference run made >=1 user call, took >=1 branch and skipped >=1 branch, printed >=8 bytes '
        'and exercised at least one of: compound assignment, array element write, short-circuit skip, overload '
        'resolution among >1 candidates, call depth >=3. Distinct by hash of (source, argv, word size). Plus a fixed family of '
        '*scale* programs that have many of something - locals of every size in one frame, parameters, string constants, functions, '
        'branches/labels, array elements (literal, global, dynamic), globals of mixed types, recursion depth - with counts on both sides of '
        '128 and 256, run at word sizes 2 and 3 (thorough: 2,3,4,8) against the reference.')
ASSUMPTIONS = ['verification Sphinx VM (svm) as calibrated in DESIGN.md 2.1 (floored div/mod)',
               'reference interpreter ref/interp.py reads README.rst + property text',
               'programs containing an out-of-range folded constant (known finding F4) are excluded by construction']
MIN_NONTRIVIAL = 100


def shards(tier):
    return list(range(16)) + [('scale', 0), ('scale', 1)]


def scale_programs(rnd, tier):
    """Programs that have *many* of something (the counts straddle 127/128, 255/256 and, for stack words, 32767/ws):
    locals in one frame, parameters, string constants, functions, labels (branches), array elements, globals, recursion
    depth.  -> list of (name, source, argv values, stack words)"""
    out = []
    counts = [120, 130, 250, 260] if tier == 'quick' else [100, 127, 128, 129, 200, 255, 256, 257, 300, 520]
    for n in counts:
        # many int locals in one frame, all live to the end
        decl = ' '.join('int v%d = x + %d;' % (i, i) for i in range(n))
        use = ' '.join('s += v%d;' % i for i in range(0, n, 7))
        out.append(('locals:%d' % n, 'empty @is_you(int x) { %s int s = 0; %s writeln(s); writeln(v%d); writeln(v0); }' % (decl, use, n - 1), [3], 4 * n + 200))
        # many byte and bool locals (odd frame offsets)
        decl = ' '.join(("byte b%d = (x + %d) is byte;" % (i, i)) if i % 2 else ('bool c%d = x > %d;' % (i, i % 5)) for i in range(n))
        out.append(('small_locals:%d' % n, 'empty @is_you(int x) { %s writeln(b%d is int); writeln(c%d); writeln(b1 is int); }' % (decl, n - 1 if (n - 1) % 2 else n - 2, n - 2 if (n - 1) % 2 else n - 1), [3], 4 * n + 200))
        # many distinct string constants
        body = ' '.join('write("s%d_%s");' % (i, 'x' * (i % 5)) for i in range(n))
        out.append(('strings:%d' % n, 'empty @is_you() { %s writeln(""); }' % body, [], 400))
        # many functions, called in a chain and directly
        funcs = ' '.join('int f%d(int a) { return %s; }' % (i, 'a + 1' if i == 0 else 'f%d(a) + 1' % (i - 1)) for i in range(n))
        out.append(('functions:%d' % n, '%s empty @is_you(int x) { writeln(f%d(x)); writeln(f0(x)); writeln(f%d(x)); }' % (funcs, n - 1, n // 2), [5], 6 * n + 300))
        # many branches / labels
        arms = ' else '.join('if (x == %d) { write(%d); }' % (i, i * 2) for i in range(n))
        out.append(('branches:%d' % n, 'empty @is_you(int x) { %s else { write(-1); } writeln(""); for (int i = 0; i < 3; i += 1) { if (i == x) { continue; } write(i); } }' % arms,
                    [n - 1], 400))
        # long array literal, dynamic array of the same length, element access at both ends
        lit_ = ', '.join(str((i * 7) % 1000) for i in range(n))
        out.append(('elements:%d' % n, 'int[] G = [%s]; empty @is_you(int x) { int[] a = [x, %s]; int d[x]; d[0] = 1; d[x - 1] = 2; writeln(a[%d]); writeln(a[x]); writeln(G[x - 1]); writeln(d[x - 1] + d[0]); writeln(a.length + d.length + G.length); }' % (lit_, lit_, n),
                    [n], 4 * n + 300))
        # many globals of mixed types
        globs = ' '.join(['int g%d = %d;' % (i, i), "byte g%d = '\\x%02x';" % (i, i % 256), 'bool g%d = %s;' % (i, 'true' if i % 3 else 'false'), 'string g%d = "g%d";' % (i, i)][i % 4] for i in range(n))
        out.append(('globals:%d' % n, '%s empty @is_you() { g0 = g0 + g%d; writeln(g0); writeln(g%d is int); writeln(g%d); writeln(g%d); }' % (
            globs, (n - 1) // 4 * 4, (n - 1) // 4 * 4 + 1 if (n - 1) // 4 * 4 + 1 < n else 1, (n - 1) // 4 * 4 + 2 if (n - 1) // 4 * 4 + 2 < n else 2, 3), [], 400))
        # many parameters
        k = min(n, 40)
        out.append(('params:%d' % k, 'int f(%s) { return p0 + p%d * 2 + p%d; } empty @is_you(int x) { writeln(f(%s)); }' % (
            ', '.join('int p%d' % i for i in range(k)), k - 1, k // 2, ', '.join('x + %d' % i for i in range(k))), [2], 400 + 4 * k))
        # recursion depth
        out.append(('recursion:%d' % n, 'int down(int k) { int[] t = [k, 1]; if (k <= 0) { return 0; } return down(k - 1) + t[1]; } empty @is_you(int x) { writeln(down(x)); }',
                    [n], 12 * n + 300))
    return out


def nontrivial(ref):
    s = ref.stats
    return (s['calls'] > 1 and s['branches_taken'] >= 1 and s['branches_not_taken'] >= 1 and len(ref.output) >= 8 and
            (s['aug'] or s['elem_write'] or s['short_circuit'] or s['overload'] or s['max_depth'] >= 3))


def check_case(stats, case, tight):
    prog, vals, ws = case
    v = check_program(prog, vals, ws, S=S0, stats=stats)
    stats.evaluated()
    stats.cls('ws%d' % ws)
    stats.cls('ref_' + v.ref.kind.split(':')[0])
    if v.ref.kind.startswith('fault'):
        stats.cls('ref_' + v.ref.kind)
    for k in ('aug', 'elem_write', 'short_circuit', 'overload'):
        if v.ref.stats[k]:
            stats.cls('feature_' + k)
    if v.ref.stats['max_depth'] >= 3:
        stats.cls('feature_depth3')
    if nontrivial(v.ref):
        stats.nt(case_hash([v.src, repr(vals), ws]))
    if v.status != 'agree':
        return (v.sig, 'ws=%d S=%d argv=%r: %s\n%s' % (ws, S0, vals, v.msg, v.src))
    if tight and v.ref.kind == 'win':
        smin = find_smin(v.src, argv_strings(vals), ws)
        if smin is None:
            return ('overflow_at_S0', 'run overflows at S0 but not per reference\n' + v.src)
        v2 = check_program(prog, vals, ws, S=smin, stats=stats)
        stats.evaluated()
        stats.cls('at_smin')
        if v2.status != 'agree':
            return ('smin:' + str(v2.sig), 'ws=%d S=%d (=S_min) argv=%r: %s\n%s' % (ws, smin, vals, v2.msg, v2.src))
    return None


def run_shard(k, seed, tier):
    stats = Stats()
    if isinstance(k, tuple):
        import random
        from harness.progcase import check_source_program
        import sys
        import ref.interp as RI
        sys.setrecursionlimit(60000)
        RI.MAX_FRAMES[0] = 1200
        progs = scale_programs(random.Random(seed), tier)
        for pi, (name, src, vals, S) in enumerate(progs):
            if pi % 2 != k[1]:
                continue
            for ws in ((2, 3) if tier == 'quick' else (2, 3, 4, 8)):
                try:
                    v = check_source_program(src, vals, ws, S=S, vm_budget=20_000_000, ref_budget=5_000_000, ref_stack=10 ** 7)
                except Discard as d:
                    stats.discard(d.why)
                    continue
                stats.evaluated()
                stats.cls('scale_programs')
                stats.nt('scale:%s:%d' % (name, ws))
                if v.status != 'agree':
                    stats.violation({'kind': 'scale', 'value': [name, ws], 'message': 'scale program %s ws=%d S=%d argv=%r: %s\n%s' % (name, ws, S, vals, v.msg, src[:1500]),
                                     'signature': 'scale:' + name.split(':')[0] + ':' + str(v.sig)})
        stats.sample({'kind': 'scale', 'programs': sorted({p[0].split(':')[0] for p in progs})})
        return stats
    n = 400 if tier == 'quick' else 6000
    strat = st.tuples(programs(features=SEQ_FEATURES), st.integers(0, 3))

    def chk(value):
        case, t = value
        if stats.evaluations % 60 == 0:
            stats.sample({'source': to_source(case[0]), 'argv': repr(case[1]), 'ws': case[2]})
        return check_case(stats, case, t == 0)

    quiet = Stats()
    mini = program_minimizer(lambda v: check_case(quiet, v[0], v[1] == 0), lambda v: v[0],
                             lambda v, p: ((p, v[0][1], v[0][2]), v[1]))
    search(strat, chk, seed=derive_seed(seed, 'C01', k), max_examples=n, stats=stats,
           shrink=(tier == 'thorough'), minimizer=mini,
           to_case=lambda v, m: dict(case_json(*v[0]), tight=(v[1] == 0), message=m, kind='program'))
    return stats


def replay(case):
    if case.get('kind') == 'scale':
        import random
        from harness.progcase import check_source_program
        name, ws = case['value']
        for tier in ('quick', 'thorough'):
            for n2, src, vals, S in scale_programs(random.Random(1), tier):
                if n2 == name:
                    try:
                        v = check_source_program(src, vals, ws, S=S, vm_budget=20_000_000, ref_budget=5_000_000, ref_stack=10 ** 7)
                    except Discard:
                        return None
                    return None if v.status == 'agree' else v.msg
        return None
    prog, vals, ws = case_from_json(case)
    try:
        r = check_case(Stats(), (prog, vals, ws), case.get('tight', False))
    except Discard as d:
        return None
    return r[1] if r else None
