"""C16 - control never runs off the end of a function."""
from hypothesis import strategies as st

import hast
from hast import *  # noqa
from hast.printer import to_source
from harness.runner import Stats, case_hash
from harness.hyp import search, derive_seed, Discard
from harness.execute import S0, run_lines, compile_lines
from harness.progcase import fmt_events
from harness import hidc_driver as H
from ref.interp import run_reference
from svm.monitors import FrameMonitor
import svm

PROPERTY = 'C16'
RULE = ('Hypothesis-generated function bodies (ordinary / you / defeat flavour; int, bool, byte, string or empty return type) '
        'from a control-flow grammar: empty bodies, sequences, if/else chains, while with literal-true, foldable-true and run-time '
        'conditions, for(;;), counted for loops, break/continue at any depth including inside try bodies, handlers and '
        'preempt blocks, returns, !is_defeat(), !truth_is_defeat, calls of user defeat functions (as statements and inside '
        'expressions), all_is_win(), all_is_broken(), user overloads that share those names but return, try/undo, try/stop, '
        'preempt, local declarations the compiler can dissolve (const with literal initialiser); print probes after every construct. '
        'Each function is followed in the output by a tell-tale function and is called on several argument vectors; in a quarter of the cases @is_you also calls itself once (a nested activation of the entry point must return to its caller). '
        'Oracles: (i) accepted programs: a replay monitor flags any sequential flow from the code of one function into the '
        'first instruction of another, and the committed event stream must equal the reference interpreter\'s (dropped code '
        'was unreachable, reachable code was kept); (ii) witness rule: if on any tried input the reference finds the body '
        'of a value-returning function completing without a return, the program must have been rejected; (iii) bodies that '
        'are structurally complete (every path ends in return / !is_defeat() / terminal call / literal-true loop without '
        'break) must be accepted. Non-trivial: a loop containing break or continue under a nested if/try/preempt, or a '
        'statement following a non-completing construct. Distinct by hash of the source.')
ASSUMPTIONS = ['verification Sphinx VM (svm) and reference interpreter; hidc emits functions in order of first reference, so '
               'the tell-tale function follows the function under test']
MIN_NONTRIVIAL = 200

RET_VALUE = {INT: lambda n: Lit('int', n, None, t=INT), BOOL: lambda n: Lit('bool', n % 2 == 0, None, t=BOOL),
             BYTE: lambda n: Lit('char', 65 + n % 20, None, t=BYTE), STRING: lambda n: Lit('string', b'r%d' % n, None, t=STRING)}


class G:
    def __init__(self, draw, flavor, ret):
        self.draw = draw
        self.flavor = flavor
        self.ret = ret
        self.n = 0
        self.loop = 0
        self.in_try = False
        self.counters = 0
        self.budget = 14
        self.uses_d = False
        self.uses_fake = False

    def i(self, lo, hi):
        return self.draw(st.integers(lo, hi))

    def pick(self, xs):
        xs = list(xs)
        return xs[self.draw(st.sampled_from(range(len(xs))))]

    def tag(self):
        self.n += 1
        return ExprStmt(Call('write', [Lit('string', b'<%d>' % self.n, None, t=STRING)], t=EMPTY))

    def cond(self):
        a, b = Var('a', t=INT), Var('b', t=INT)
        k = Lit('int', self.i(0, 3), None, t=INT)
        return self.pick([Bin('>', a, k, t=BOOL), Bin('==', b, k, t=BOOL), Bin('<', a, b, t=BOOL), Lit('bool', True, None, t=BOOL),
                          Lit('bool', False, None, t=BOOL), Bin('!=', a, k, t=BOOL), Bin('<=', b, k, t=BOOL)])

    def defeat_ok(self):
        return self.flavor == '!' or self.in_try

    def ret_stmt(self):
        self.n += 1
        return Return(None if self.ret == EMPTY else RET_VALUE[self.ret](self.n))

    def exit_stmt(self):
        opts = ['return', 'return']
        if self.loop:
            opts += ['break', 'break']
        if self.defeat_ok() and not getattr(self, 'expr_defeat_only', False):
            opts += ['defeat']
        opts += ['win'] if self.i(0, 9) == 0 else []
        k = self.pick(opts)
        if k == 'return':
            return self.ret_stmt()
        if k == 'break':
            return Break()
        if k == 'defeat':
            return ExprStmt(Call('!is_defeat', [], t=EMPTY))
        return ExprStmt(Call(self.pick(['all_is_win', 'all_is_broken']), [], t=EMPTY))

    def block(self, n):
        out = []
        for _ in range(n):
            if self.budget <= 0:
                break
            out += self.stmt()
        return Block(out)

    def stmt(self):
        self.budget -= 1
        opts = [(18, 'tag'), (16, 'if'), (8, 'ifelse'), (8, 'const_loop'), (6, 'counted'), (4, 'while_rt'), (10, 'return')]
        if self.loop:
            opts += [(9, 'break'), (7, 'continue')]
        if self.defeat_ok():
            if getattr(self, 'expr_defeat_only', False):
                opts += [(16, 'dcall_expr'), (5, 'preempt')]
            else:
                opts += [(6, 'is_defeat'), (6, 'truth'), (6, 'dcall'), (7, 'dcall_expr'), (7, 'preempt')]
        if self.flavor == '@' and not self.in_try:
            opts += [(12, 'try')]
        opts += [(2, 'terminal'), (3, 'array'), (4, 'fake_terminal'), (5, 'local_const')]
        total = sum(w for w, _ in opts)
        r = self.i(0, total - 1)
        for w, k in opts:
            if r < w:
                break
            r -= w
        if k == 'tag':
            return [self.tag()]
        if k == 'local_const':
            # a local declaration the compiler may dissolve completely (const with a literal initialiser, or an unused plain
            # local): whatever follows it in the block must still be generated
            self.counters += 1
            nm = 'k%d' % self.counters
            ty, lit_ = self.pick([(INT, Lit('int', 2, None, t=INT)), (BYTE, Lit('char', 66, None, t=BYTE)), (BOOL, Lit('bool', True, None, t=BOOL)),
                                   (STRING, Lit('string', b'kk', None, t=STRING)), (INT, Bin('+', Lit('int', 1, None, t=INT), Lit('int', 2, None, t=INT), t=INT))])
            const = self.i(0, 3) != 0
            out = [Decl(ty, const, nm, lit_)]
            if self.i(0, 1):
                shown = Var(nm, t=ty)
                out.append(ExprStmt(Call('write', [Is(shown, INT, t=INT) if ty == BYTE else shown], t=EMPTY)))
            return out + [self.tag()]
        if k == 'if':
            return [If(self.cond(), self.block(self.i(1, 3)), None), self.tag()]
        if k == 'ifelse':
            return [If(self.cond(), self.block(self.i(1, 2)), self.block(self.i(1, 2))), self.tag()]
        if k == 'const_loop':
            # literal-true / foldable-true / for(;;) loop with a guaranteed exit after at most 3 laps
            self.counters += 1
            c = 'c%d' % self.counters
            cv = Var(c, t=INT)
            self.loop += 1
            guard = If(Bin('>', cv, Lit('int', self.i(0, 2), None, t=INT), t=BOOL), Block([self.tag(), self.exit_stmt()]), None)
            body = self.block(self.i(0, 3))
            self.loop -= 1
            stmts = [AugAssign(cv, '+', Lit('int', 1, None, t=INT)), guard] + body.stmts
            form = self.i(0, 2)
            if form == 0:
                loop = While(Lit('bool', True, None, t=BOOL), Block(stmts))
            elif form == 1:
                loop = While(Bin('==', Lit('int', 1, None, t=INT), Lit('int', 1, None, t=INT), t=BOOL), Block(stmts))
            else:
                loop = For(None, None, None, Block(stmts))
            return [Decl(INT, False, c, Lit('int', 0, None, t=INT)), loop, self.tag()]
        if k == 'counted':
            self.counters += 1
            v = 'i%d' % self.counters
            iv = Var(v, t=INT)
            self.loop += 1
            body = self.block(self.i(1, 3))
            self.loop -= 1
            return [For(Decl(INT, False, v, Lit('int', 0, None, t=INT)), Bin('<', iv, Lit('int', self.i(0, 3), None, t=INT), t=BOOL),
                        AugAssign(iv, '+', Lit('int', 1, None, t=INT)), body), self.tag()]
        if k == 'while_rt':
            self.counters += 1
            v = 'w%d' % self.counters
            wv = Var(v, t=INT)
            self.loop += 1
            body = self.block(self.i(1, 2))
            self.loop -= 1
            body.stmts.insert(0, AugAssign(wv, '-', Lit('int', 1, None, t=INT)))
            return [Decl(INT, False, v, Lit('int', self.i(0, 3), None, t=INT)), While(Bin('>', wv, Lit('int', 0, None, t=INT), t=BOOL), body), self.tag()]
        if k == 'return':
            if self.i(0, 2):
                return [If(self.cond(), Block([self.tag(), self.ret_stmt()]), None)]
            return [self.ret_stmt(), self.tag()]
        if k == 'break':
            inner = Break()
            return [If(self.cond(), Block([self.tag(), inner]), None)] if self.i(0, 2) else [inner, self.tag()]
        if k == 'continue':
            inner = Continue()
            return [If(self.cond(), Block([self.tag(), inner]), None)] if self.i(0, 2) else [inner, self.tag()]
        if k == 'is_defeat':
            s_ = ExprStmt(Call('!is_defeat', [], t=EMPTY))
            return [If(self.cond(), Block([s_]), None)] if self.i(0, 2) else [s_, self.tag()]
        if k == 'truth':
            return [ExprStmt(Call('!truth_is_defeat', [self.cond()], t=EMPTY)), self.tag()]
        if k == 'dcall':
            self.uses_d = True
            return [ExprStmt(Call('!dh', [Var('a', t=INT)], t=INT)), self.tag()]
        if k == 'dcall_expr':
            self.uses_d = True
            self.counters += 1
            v = 'h%d' % self.counters
            call = Call('!dh', [Bin('+', Var('b', t=INT), Lit('int', self.i(0, 2), None, t=INT), t=INT)], t=INT)
            return [Decl(INT, False, v, call), self.tag()] if self.i(0, 1) else \
                [If(Bin('>', call, Lit('int', 0, None, t=INT), t=BOOL), Block([self.tag()]), None), self.tag()]
        if k == 'preempt':
            body = self.block(self.i(1, 2))
            if self.i(0, 1):
                body.stmts.append(self.exit_stmt())
            return [Preempt(body), self.tag()]
        if k == 'try':
            self.in_try = True
            # a third of the try bodies reach defeat only through calls embedded in expressions
            self.expr_defeat_only = self.i(0, 2) == 0
            body = self.block(self.i(1, 3))
            if self.expr_defeat_only:
                self.expr_defeat_only = False
                if self.i(0, 1):
                    body.stmts.append(self.ret_stmt())
            elif self.i(0, 1):
                body.stmts.append(ExprStmt(Call('!is_defeat', [], t=EMPTY)) if self.i(0, 1) else
                                  ExprStmt(Call('!truth_is_defeat', [self.cond()], t=EMPTY)))
            self.in_try = False
            handler = self.block(self.i(0, 2))
            if self.i(0, 2) == 0:
                handler.stmts.append(self.exit_stmt())
            return [Try(body, self.pick(['undo', 'stop']), handler), self.tag()]
        if k == 'terminal':
            s_ = ExprStmt(Call(self.pick(['all_is_win', 'all_is_broken']), [], t=EMPTY))
            return [If(self.cond(), Block([self.tag(), s_]), None)] if self.i(0, 3) else [s_, self.tag()]
        if k == 'fake_terminal':
            # user overloads that merely share a terminal built-in's name: they return normally
            self.uses_fake = True
            name, arg = self.pick([('all_is_win', Var('a', t=INT)), ('all_is_broken', Lit('string', b'why', None, t=STRING)),
                                   ('all_is_win', Lit('int', 7, None, t=INT))])
            s_ = ExprStmt(Call(name, [arg], t=EMPTY))
            return [s_, self.tag()] if self.i(0, 2) else [If(self.cond(), Block([s_]), None), self.tag()]
        if k == 'array':
            self.counters += 1
            v = 'z%d' % self.counters
            ty = arr(INT, False)
            return [Decl(ty, True, v, ArrLit([Var('a', t=INT), Lit('int', 1, None, t=INT)], t=ty)),
                    ExprStmt(Call('write', [Index(Var(v, t=ty), Lit('int', 0, None, t=INT), t=INT)], t=EMPTY))]
        raise AssertionError(k)


@st.composite
def function_case(draw):
    flavor = draw(st.sampled_from(['', '', '@', '@', '!']))
    ret = draw(st.sampled_from([INT, INT, BOOL, BYTE, STRING, EMPTY, EMPTY]))
    g = G(draw, flavor, ret)
    nstm = draw(st.integers(0, 6))      # 0: a literally empty body (only legal for empty functions; implicit return)
    body = g.block(nstm)
    if nstm and draw(st.integers(0, 2)) == 0:
        body.stmts.append(g.ret_stmt())
    name = flavor + 'fut'
    params = [Param(INT, False, 'a'), Param(INT, False, 'b')]
    fut = Func(ret, name, params, body)
    a, b = Var('a', t=INT), Var('b', t=INT)
    call = Call(name, [a, b], t=ret)
    shown = [ExprStmt(call)] if ret == EMPTY else [ExprStmt(Call('write', [Is(call, INT, t=INT) if ret == BYTE else call], t=EMPTY))]
    tell = ExprStmt(Call('zz_telltale', [], t=EMPTY))
    if flavor == '!':
        kind = draw(st.sampled_from(['undo', 'stop']))
        main_body = [Try(Block(shown + [ExprStmt(Call('write', [Lit('char', 84, None, t=BYTE)], t=EMPTY))]), kind,
                         Block([ExprStmt(Call('write', [Lit('char', 72, None, t=BYTE)], t=EMPTY))]))]
    else:
        main_body = shown
    guard_tell = If(Bin('==', a, Lit('int', -12345, None, t=INT), t=BOOL), Block([tell]), None)
    reenter = []
    if draw(st.integers(0, 3)) == 0:
        # @is_you is an ordinary you-function too: a nested activation must return to its caller like any other call
        reenter = [If(Bin('==', a, Lit('int', 3, None, t=INT), t=BOOL),
                      Block([ExprStmt(Call('write', [Lit('char', 91, None, t=BYTE)], t=EMPTY)),
                             ExprStmt(Call('@is_you', [Bin('-', a, Lit('int', 2, None, t=INT), t=INT), b], t=EMPTY)),
                             ExprStmt(Call('write', [Lit('char', 93, None, t=BYTE)], t=EMPTY))]), None)]
    main = Func(EMPTY, '@is_you', params, Block(reenter + main_body + [guard_tell, ExprStmt(Call('write', [Lit('char', 69, None, t=BYTE)], t=EMPTY))]))
    telltale = Func(EMPTY, 'zz_telltale', [], Block([ExprStmt(Call('write', [Lit('string', b'TELLTALE', None, t=STRING)], t=EMPTY))]))
    dh = Func(INT, '!dh', [Param(INT, False, 'x')], Block([
        ExprStmt(Call('write', [Lit('string', b'<dh>', None, t=STRING)], t=EMPTY)),
        ExprStmt(Call('!truth_is_defeat', [Bin('>', Var('x', t=INT), Lit('int', 1, None, t=INT), t=BOOL)], t=EMPTY)),
        Return(Bin('+', Var('x', t=INT), Lit('int', 1, None, t=INT), t=INT))]))
    fakes = [Func(EMPTY, 'all_is_win', [Param(INT, False, 'x')], Block([ExprStmt(Call('write', [Lit('string', b'<aiw>', None, t=STRING)], t=EMPTY))])),
             Func(EMPTY, 'all_is_broken', [Param(STRING, False, 'why')], Block([ExprStmt(Call('write', [Var('why', t=STRING)], t=EMPTY))]))]
    funcs = [main, fut, telltale] + ([dh] if g.uses_d else []) + (fakes if g.uses_fake else [])
    inputs = draw(st.lists(st.tuples(st.integers(-1, 4), st.integers(-1, 4)), min_size=3, max_size=5, unique=True))
    return Program([], funcs), inputs, draw(st.sampled_from([2, 2, 4])), flavor, ret


def has_break_for(stmts, depth=0):
    """Does a break belonging to the enclosing loop occur in stmts (not counting nested loops' breaks)?"""
    for s in stmts:
        if isinstance(s, Break):
            return True
        if isinstance(s, If):
            if has_break_for(s.then.stmts) or (s.els is not None and has_break_for(s.els.stmts)):
                return True
        elif isinstance(s, Block):
            if has_break_for(s.stmts):
                return True
        elif isinstance(s, Try):
            if has_break_for(s.body.stmts) or has_break_for(s.handler.stmts):
                return True
        elif isinstance(s, Preempt):
            if has_break_for(s.body.stmts):
                return True
    return False


def cannot_complete(stmts):
    """Structural: some statement of the list never completes normally (documented shapes only)."""
    for s in stmts:
        if isinstance(s, Return):
            return True
        if isinstance(s, ExprStmt) and isinstance(s.e, Call) and s.e.name in ('!is_defeat', 'all_is_win', 'all_is_broken') and not s.e.args:
            return True
        if isinstance(s, If) and s.els is not None and cannot_complete(s.then.stmts) and cannot_complete(s.els.stmts):
            return True
        if isinstance(s, Block) and cannot_complete(s.stmts):
            return True
        if isinstance(s, (While, For)):
            cond = s.cond
            if (cond is None or (isinstance(cond, Lit) and cond.kind == 'bool' and cond.value)) and not has_break_for(s.body.stmts):
                return True
        if isinstance(s, Try) and cannot_complete(s.body.stmts) and cannot_complete(s.handler.stmts):
            return True
        if isinstance(s, (Break, Continue)):
            return False   # leaves the list for the enclosing loop: no claim either way
    return False


def interesting(prog):
    fut = prog.funcs[1]
    for n in hast.walk(fut):
        if isinstance(n, (While, For)):
            for m in hast.walk(n.body):
                if isinstance(m, (If, Try, Preempt)) and any(isinstance(x, (Break, Continue)) for x in hast.walk(m)):
                    return True
    return False


def check_case(stats, case):
    prog, inputs, ws, flavor, ret = case
    src = to_source(prog)
    stats.evaluated()
    stats.cls('flavor_' + (flavor or 'ordinary'))
    stats.cls('ret_' + ret)
    try:
        lines = compile_lines(src, ws, S0, False)
        verdict = 'accept'
    except H.CompilerError as e:
        verdict = 'missing_return' if 'Missing return statement' in str(e) else 'other:%s: %s' % (type(e).__name__, e)
    if interesting(prog):
        stats.nt(case_hash(src))
    stats.cls('verdict_' + verdict.split(':')[0])
    fut = prog.funcs[1]
    if verdict.startswith('other'):
        return ('rejected', 'generated program rejected: %s\n%s' % (verdict, src))
    if verdict == 'missing_return':
        if ret != EMPTY and cannot_complete(fut.body.stmts):
            return ('over_rejection', 'body cannot complete without returning (structurally), yet it is rejected with "Missing return statement"\n%s' % src)
        if ret == EMPTY:
            return ('over_rejection', 'empty function rejected with "Missing return statement"\n%s' % src)
        return None
    for (a, b) in inputs:
        ref = run_reference(prog, [a, b], ws, budget=60_000)
        if ref.kind == 'budget':
            stats.cls('ref_budget')
            continue
        if ref.kind.startswith('undefined:fell off'):
            return ('witness', 'accepted, but with a=%d b=%d the body of %s %s completes without returning a value\n%s' % (a, b, ret, fut.name, src))
        if ref.kind.startswith('undefined') or ref.kind == 'halt':
            continue
        run = run_lines(lines, [str(a), str(b)], budget=600_000)
        stats.evaluated()
        stats.cls('runs')
        if run.outcome == svm.BUDGET:
            continue
        if run.res is None:
            return ('asm', run.outcome + '\n' + src)
        fm = FrameMonitor(run.prog)
        svm.VM(run.prog).replay(run.res.decisions, fm, max_steps=run.res.steps + 10)
        offs = [v for v in fm.violations if v[1].startswith('control ran off')]
        if offs:
            return ('fall_through', 'a=%d b=%d: %s [pc %d]\n%s' % (a, b, offs[0][1], offs[0][0], src))
        if b'TELLTALE' in run.out:
            return ('telltale', 'a=%d b=%d: the tell-tale function ran: output %r\n%s' % (a, b, run.out, src))
        if run.events != ref.events or run.outcome != svm.FOREVER:
            return ('diff', 'a=%d b=%d: events %s (%s), reference %s\n%s' % (a, b, fmt_events(run.events), run.outcome, fmt_events(ref.events), src))
    return None


def shards(tier):
    return list(range(16))


def run_shard(k, seed, tier):
    stats = Stats()
    n = 450 if tier == 'quick' else 8000

    def chk(case):
        if stats.evaluations % 300 == 0:
            stats.sample({'source': to_source(case[0]), 'inputs': case[1], 'ws': case[2]})
        return check_case(stats, case)

    def to_case(v, m):
        return {'kind': 'function', 'prog': hast.to_json(v[0]), 'inputs': [list(x) for x in v[1]], 'ws': v[2], 'flavor': v[3],
                'ret': v[4], 'source': to_source(v[0]), 'message': m}

    search(function_case(), chk, seed=derive_seed(seed, 'C16', k), max_examples=n, stats=stats, to_case=to_case,
           shrink=(tier == 'thorough'))
    return stats


def replay(case):
    prog = hast.from_json(case['prog'])
    r = check_case(Stats(), (prog, [tuple(x) for x in case['inputs']], case['ws'], case['flavor'], case['ret']))
    return r[1] if r else None
