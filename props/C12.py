"""C12 - lexing is exact and independent of layout."""
from hypothesis import strategies as st

from gen.programs import programs, SEQ_FEATURES, ALL_FEATURES
from hast.printer import tokens_of, NL
from harness.runner import Stats, case_hash
from harness.hyp import search, derive_seed, Discard
from harness import hidc_driver as H
from ref import lex as R

PROPERTY = 'C12'
RULE = ('(A) Hypothesis token-spelling sequences over the full token alphabet - symbols, keywords, plain/@/! identifiers, '
        'integers in decimal/hex/octal/binary with _ separators in every legal position and leading zeros, strings and '
        'chars built from raw characters, every named escape, \\xNN for all byte values, \\u{...} for arbitrary scalar values, '
        'raw non-ASCII text, plus deliberately malformed spellings - joined by arbitrary separators (empty, space, tab, '
        'newline, form feed, // comments with arbitrary text): hidc.lexer.lex must agree with the independent reference '
        'tokenizer on kind, value and span of every token, or both must reject; every reported span must re-lex to the same '
        'single token. (B) raw text over a lexer-biased alphabet: same differential. (C) layout metamorphosis: the token '
        'sequence of a generated whole program rendered with two random layouts (empty separators wherever the reference '
        'says neighbours cannot merge) must lex to the same tokens and compile to the same instruction stream (comment lines '
        'stripped). (D) flavoured twins: every name (ASCII head, tail of ASCII / non-ASCII letters, digits and marks) that lexes as one plain identifier must lex as one identifier of the same base name under either flavour sigil - a self-consistency relation that needs no reference and therefore also covers non-ASCII names. (E) gaps: one separator of a generated program replaced by 40-5000 token-free lines (blank, whitespace, comments) must change neither tokens nor instructions. Non-trivial: texts with an empty separator between two tokens, a non-decimal integer, an escape, a '
        'non-ASCII character or a comment directly after a token. Distinct by hash of the text.')
ASSUMPTIONS = ['reference tokenizer ref/lex.py (README literal forms + tests/test_lexer.py as documentation)',
               'domain: ASCII identifiers; whitespace = space, tab, LF, FF, VT; texts with CR, other control characters or '
               'non-ASCII letters/digits/spaces outside literals are skipped (undocumented)']
MIN_NONTRIVIAL = 300

SYMS = list(R.SYMBOLS)
KWS = sorted(R.KEYWORDS)


def hidc_tokens(text):
    """-> list of (kind, value, span) or ('error', message)"""
    from hidc.lexer import tokens as T
    out = []
    try:
        for lx in H.lex(H.SourceCode.from_string(text)):
            tok = lx.token
            sp = (lx.span.start.line, lx.span.start.col, lx.span.end.line, lx.span.end.col)
            if isinstance(tok, T.Ident):
                out.append(('ident', (str(tok.flavor), tok.base_name), sp))
            elif isinstance(tok, T.IntToken):
                out.append(('int', tok.data, sp))
            elif isinstance(tok, T.StringToken):
                out.append(('string', bytes(tok.data), sp))
            elif isinstance(tok, T.CharToken):
                out.append(('char', tok.data, sp))
            elif isinstance(tok, T.EnumToken):
                s = str(tok)
                out.append(('kw' if s in R.KEYWORDS else 'sym', s, sp))
            else:
                out.append(('unknown', repr(tok), sp))
    except H.LexerError as e:
        return ('error', str(e))
    return out


def ref_tokens(text):
    try:
        return [t.key() for t in R.lex(text)]
    except R.RefLexError as e:
        return ('error', str(e))


def classify(stats, text, toks):
    nt = False
    if any(ord(c) > 127 for c in text):
        stats.cls('has_non_ascii')
        nt = True
    if '\\' in text:
        stats.cls('has_escape')
        nt = True
    if isinstance(toks, list):
        for a, b in zip(toks, toks[1:]):
            if a[2][0] == b[2][0] and a[2][3] == b[2][1]:
                stats.cls('has_empty_separator')
                nt = True
                break
        lines = text.split('\n')
        for t in toks:
            if t[0] == 'int':
                sp = lines[t[2][0]][t[2][1]:t[2][3]]
                if sp[:2] in ('0x', '0o', '0b') or '_' in sp:
                    stats.cls('has_nondecimal_or_separated_int')
                    nt = True
                    break
        for t in toks:
            ln = lines[t[2][0]]
            if ln[t[2][3]:t[2][3] + 2] == '//':
                stats.cls('has_comment_after_token')
                nt = True
                break
    if nt:
        stats.nt(case_hash(text))


def check_text(stats, text):
    if not R.in_domain(text):
        raise Discard('outside lexer domain (CR / control characters)')
    try:
        want = ref_tokens(text)
    except R.OutOfDomain:
        raise Discard('outside lexer domain (non-ASCII letters/digits/spaces outside literals)')
    got = hidc_tokens(text)
    stats.evaluated()
    classify(stats, text, want)      # classified by the reference tokens: hidc's spans are what is under test
    if isinstance(want, tuple) or isinstance(got, tuple):
        stats.cls('rejected_by_reference' if isinstance(want, tuple) else 'accepted_by_reference')
        if isinstance(want, tuple) != isinstance(got, tuple):
            return ('accept/reject', 'text %r: reference %s, hidc %s' % (text, want if isinstance(want, tuple) else 'accepts %d tokens' % len(want),
                                                                          got if isinstance(got, tuple) else 'accepts: %r' % (got[:6],)))
        return None
    stats.cls('accepted_by_reference')
    if want != got:
        k = 0
        while k < min(len(want), len(got)) and want[k] == got[k]:
            k += 1
        return ('tokens', 'text %r: token #%d differs: reference %r, hidc %r' % (
            text, k, want[k] if k < len(want) else None, got[k] if k < len(got) else None))
    # every span re-lexes to the same single token
    lines = text.split('\n')
    for kind, value, sp in got:
        if not (0 <= sp[0] < len(lines) and sp[0] == sp[2] and 0 <= sp[1] <= sp[3] <= len(lines[sp[0]])):
            return ('span', 'text %r: span %r of token (%s, %r) lies outside the text' % (text, sp, kind, value))
        piece = lines[sp[0]][sp[1]:sp[3]]
        again = hidc_tokens(piece)
        if isinstance(again, tuple) or len(again) != 1 or again[0][:2] != (kind, value):
            return ('span', 'text %r: span %r of token (%s, %r) is %r, which lexes to %r' % (text, sp, kind, value, piece, again))
    return None


# ---- (A) token spellings -----------------------------------------------------
def int_spellings():
    digits = {'d': '0123456789', 'x': '0123456789abcdefABCDEF', 'o': '01234567', 'b': '01'}

    @st.composite
    def one(draw):
        base = draw(st.sampled_from(['d', 'd', 'x', 'o', 'b']))
        n = draw(st.integers(1, 8))
        s = ''
        for k in range(n):
            s += draw(st.sampled_from(digits[base]))
            if k < n - 1 and draw(st.integers(0, 3)) == 0:
                s += '_'
        return ({'d': '', 'x': '0x', 'o': '0o', 'b': '0b'}[base]) + s
    weird = st.sampled_from(['0x', '0b2', '0o8', '1__2', '1_', '0x_1', '00', '007', '0b', '0xg', '9_', '1_000', '0XFF', '0B1', '1e5', '0x1G', '0o17_', '123abc'])
    return st.one_of(one(), one(), one(), weird)


def string_spelling():
    named = st.sampled_from(['\\a', '\\b', '\\f', '\\n', '\\r', '\\t', '\\0', "\\'", '\\"', '\\\\'])
    hexes = st.integers(0, 255).map(lambda b: '\\x%02x' % b if b % 2 else '\\x%02X' % b)
    uni = st.one_of(st.sampled_from([0, 0x41, 0x7f, 0x80, 0xff, 0x100, 0x7ff, 0x800, 0xffff, 0x10000, 0x1F30E, 0x10FFFF]),
                    st.integers(0, 0x10FFFF)).filter(lambda c: not 0xD800 <= c <= 0xDFFF).map(lambda c: '\\u{%X}' % c)
    raw = st.characters(min_codepoint=0x20, max_codepoint=0x10FFFF, blacklist_categories=('Cs',),
                        blacklist_characters='"\\')
    bad = st.sampled_from(['\\q', '\\x1', '\\xg0', '\\u{}', '\\u{110000}', '\\u{D800}', '\\u12', '\\ ', '\\X41', '\\u{ 41}'])
    piece = st.one_of(named, hexes, uni, raw, raw, st.sampled_from(["'", 'a', ' ', '//', '/*', '\t']))
    piece_bad = st.one_of(piece, piece, piece, piece, bad)
    good = st.lists(piece, max_size=8).map(lambda ps: '"' + ''.join(ps) + '"')
    maybe_bad = st.lists(piece_bad, max_size=6).map(lambda ps: '"' + ''.join(ps) + '"')
    unclosed = st.lists(piece, max_size=4).map(lambda ps: '"' + ''.join(ps))
    return st.one_of(good, good, good, good, good, good, good, maybe_bad, unclosed)


def char_spelling():
    named = st.sampled_from(['\\a', '\\b', '\\f', '\\n', '\\r', '\\t', '\\0', "\\'", '\\"', '\\\\'])
    hexes = st.integers(0, 255).map(lambda b: '\\x%02x' % b)
    uni = st.sampled_from(['\\u{41}', '\\u{7f}', '\\u{80}', '\\u{0}', '\\u{1F30E}'])
    raw = st.characters(min_codepoint=0x20, max_codepoint=0x2FF, blacklist_characters="'\\")
    body = st.one_of(named, hexes, hexes, uni, raw, raw, st.sampled_from(['', 'ab', '\\q', '"']))
    return st.one_of(body.map(lambda b: "'" + b + "'"), body.map(lambda b: "'" + b + "'"), body.map(lambda b: "'" + b + "'"), body.map(lambda b: "'" + b))


def ident_spelling():
    first = 'abcxyzABZ_'
    rest = 'abcxyz019_AZ'
    plain = st.tuples(st.sampled_from(first), st.text(rest, max_size=5)).map(lambda t: t[0] + t[1])
    kwish = st.sampled_from(KWS).flatmap(lambda k: st.sampled_from([k + '_', k + 'x', '_' + k, k.upper(), k + '1', k]))
    name = st.one_of(plain, plain, kwish)
    return st.one_of(name, name, name.map(lambda n: '@' + n), name.map(lambda n: '!' + n), st.sampled_from(['@', '!', '@1', '! x', '@@a']))


def token_spelling():
    return st.one_of(st.sampled_from(SYMS), st.sampled_from(SYMS), st.sampled_from(KWS), ident_spelling(), int_spellings(),
                     st.sampled_from(SYMS), ident_spelling(), int_spellings(), st.sampled_from(KWS),
                     string_spelling(), char_spelling(), st.sampled_from(['#', '$', '`', '~', '^', '&', '|', '?', ':', 'é', '☃', ';', ';', '(', ')']))


def separator():
    comment = st.text(st.characters(min_codepoint=0x20, max_codepoint=0x2FF), max_size=10).map(lambda t: '//' + t + '\n')
    return st.one_of(st.just(''), st.just(''), st.just(' '), st.just(' '), st.just('\t'), st.just('\n'), st.just('\f'),
                     st.just('  \n\t'), comment, comment.map(lambda c: ' ' + c))


def spelled_text():
    return st.lists(st.tuples(token_spelling(), separator()), min_size=1, max_size=12).map(
        lambda ps: ''.join(t + s for t, s in ps))


RAW_ALPHABET = list('abxyz_019 \t\n"\'\\/+-*%=!<>?.;,()[]{}@#') + ['//', '0x', '0b', '\\x', '\\u{', '}', 'is', 'or', 'not', 'é', '中', '\U0001F30E', '\f']


def raw_text():
    return st.lists(st.sampled_from(RAW_ALPHABET), max_size=30).map(''.join)


# ---- (C) layout metamorphosis ------------------------------------------------
def safe_concat(a, b):
    try:
        toks = R.lex(a + b)
        ta = R.lex(a)
        tb = R.lex(b)
    except (R.RefLexError, R.OutOfDomain):
        return False
    return len(ta) == 1 and len(tb) == 1 and len(toks) == 2 and toks[0].kind == ta[0].kind and \
        toks[0].value == ta[0].value and toks[1].kind == tb[0].kind and toks[1].value == tb[0].value and \
        toks[0].span[3] == len(a)


def render(tokens, choices):
    """tokens: list of token spellings; choices: iterator of ints driving the separators."""
    toks = [t for t in tokens if t != NL]
    out = []
    seps = [' ', '\n', '\t', '  ', '\n\n', ' // c\n', '\f', '//\n', ' //"x\'\n', '']
    for i, t in enumerate(toks):
        out.append(t)
        if i + 1 < len(toks):
            s = seps[next(choices) % len(seps)]
            if s == '' and not safe_concat(t, toks[i + 1]):
                s = ' '
            if t.endswith('/') and s.startswith('/'):
                s = ' ' + s
            out.append(s)
    tail = seps[next(choices) % len(seps)]
    if toks and toks[-1].endswith('/') and tail.startswith('/'):
        tail = ' ' + tail
    out.append(tail)
    return ''.join(out)


def check_layout(stats, case, seq1, seq2):
    prog, vals, ws = case
    toks = tokens_of(prog)
    a = render(toks, iter(seq1 * 4000))
    b = render(toks, iter(seq2 * 4000))
    stats.evaluated(2)
    stats.cls('layout_pairs')
    ta = hidc_tokens(a)
    tb = hidc_tokens(b)
    for text_ in (a, b):
        try:
            classify(stats, text_, ref_tokens(text_))
        except R.OutOfDomain:
            pass
    if isinstance(ta, tuple) or isinstance(tb, tuple):
        return ('layout_lex', 'a layout of a valid program fails to lex: %r / %r\n%s\n----\n%s' % (ta if isinstance(ta, tuple) else 'ok', tb if isinstance(tb, tuple) else 'ok', a, b))
    if [t[:2] for t in ta] != [t[:2] for t in tb]:
        return ('layout_tokens', 'two layouts of the same token sequence lex differently\n%s\n----\n%s' % (a, b))
    try:
        la = H.instr_lines(H.compile_source(a, ws, 400))
        lb = H.instr_lines(H.compile_source(b, ws, 400))
    except H.CompilerError as e:
        try:
            H.compile_source(a, ws, 400)
            first_ok = True
        except H.CompilerError:
            first_ok = False
        try:
            H.compile_source(b, ws, 400)
            second_ok = True
        except H.CompilerError:
            second_ok = False
        if first_ok != second_ok:
            return ('layout_accept', 'one layout compiles, the other does not (%s)\n%s\n----\n%s' % (e, a, b))
        raise Discard('program rejected in both layouts')
    if la != lb:
        k = 0
        while k < min(len(la), len(lb)) and la[k] == lb[k]:
            k += 1
        return ('layout_code', 'two layouts compile to different instructions (line %d: %r vs %r)\n%s\n----\n%s' % (
            k, la[k] if k < len(la) else None, lb[k] if k < len(lb) else None, a, b))
    return None


def check_twin(stats, name):
    """Self-consistency of flavoured identifiers: if `name` lexes as exactly one plain identifier spanning the whole
    text, then `@name` and `!name` are exactly one identifier of that flavour with the same base name and a span over
    the whole text.  No reference model is involved, so names outside the reference tokenizer's domain (non-ASCII
    letters and digits) are covered too."""
    plain = hidc_tokens(name)
    stats.evaluated()
    if not (isinstance(plain, list) and len(plain) == 1 and plain[0][0] == 'ident' and plain[0][1] == ('', name)
            and plain[0][2] == (0, 0, 0, len(name))):
        raise Discard('not a single plain identifier')
    if any(ord(c) > 127 for c in name):
        stats.cls('twin_non_ascii')
    stats.nt('twin:' + name)
    for sig in '@!':
        got = hidc_tokens(sig + name)
        want = [('ident', (sig, name), (0, 0, 0, len(name) + 1))]
        if got != want:
            return ('twin', 'identifier %r lexes as one token, %r lexes as %r (expected %r)' % (name, sig + name, got, want))
    return None


def twin_names():
    tail = st.one_of(st.sampled_from(list('abzAZ_09')), st.sampled_from(list('äöüßéñøλжかㄱ中٣२０²ªµ')),
                     st.characters(whitelist_categories=('Ll', 'Lu', 'Lo', 'Lm', 'Nd', 'No', 'Nl', 'Mn', 'Pc')))
    return st.builds(lambda h, t: h + ''.join(t), st.sampled_from(list('abxyzABZ_')), st.lists(tail, min_size=0, max_size=8))


def check_gaps(stats, case, gap_lines, where, filler):
    """Layout metamorphosis at scale: one separator of the program is replaced by `gap_lines` lines that contain no token
    (blank, whitespace-only, comment lines).  Tokens and emitted instructions must not change."""
    from hast.printer import tokens_of
    prog, vals, ws = case
    toks = tokens_of(prog)
    if len(toks) < 4:
        raise Discard('tiny program')
    k = [0, len(toks) // 2, len(toks) - 1, len(toks)][where % 4]
    fill = {'blank': '\n', 'spaces': '   \t\n', 'comment': '// filler ; { } " \' text\n', 'mixed': '\n  // c\n\t\n'}[filler]
    gap = fill * (gap_lines if filler != 'mixed' else gap_lines // 3 + 1)
    compact = ' '.join(toks)
    wide = ' '.join(toks[:k]) + '\n' + gap + ' '.join(toks[k:])
    stats.evaluated()
    stats.cls('gap_%s' % filler)
    stats.nt('gap:%d:%d:%s:%s' % (gap_lines, where % 4, filler, compact[:40]))
    a, b = hidc_tokens(compact), hidc_tokens(wide)
    if isinstance(a, tuple):
        raise Discard('base does not lex')
    strip = lambda ts: [(t[0], t[1]) for t in ts] if isinstance(ts, list) else ts      # noqa
    if strip(a) != strip(b):
        return ('gap_tokens', 'a gap of %d token-free lines (%s) at token %d changes the token sequence: %r' % (gap_lines, filler, k, b if isinstance(b, tuple) else 'different tokens'))
    try:
        la = H.compile_source(compact, ws, 400, False)
    except H.CompilerError:
        raise Discard('program rejected')
    try:
        lb = H.compile_source(wide, ws, 400, False)
    except H.CompilerError as e:
        return ('gap_reject', 'a gap of %d token-free lines (%s) at token %d makes the program fail to compile: %s' % (gap_lines, filler, k, e))
    code = lambda ls: [l for l in ls if not l.lstrip().startswith(b';')]      # noqa
    if code(la) != code(lb):
        return ('gap_code', 'a gap of %d token-free lines (%s) changes the emitted instructions' % (gap_lines, filler))
    return None


def shards(tier):
    return [('twin', 0), ('gaps', 0)] + [('spelled', k) for k in range(8)] + [('raw', k) for k in range(4)] + [('layout', k) for k in range(4)] + \
        ([('atheris', k) for k in range(4)] if tier == 'thorough' else [])


def run_shard(desc, seed, tier):
    kind, k = desc
    stats = Stats()
    if kind == 'atheris':
        from harness.fuzz import campaign

        def recheck(text):
            try:
                return check_text(Stats(), text)
            except Discard:
                return None
        seeds = [] if k % 2 == 0 else ['int x = 0x1F + 0b10 - 0o7; // c\n"a\\n\\x41" \'\\\'\' @is_you !f <= >= == != ?? += 1_000',
                                       'empty @is_you() { write("hi"); /* x */ }']
        for sig, msg, text in campaign('c12', derive_seed(seed, 'C12', kind, k), 400000, seeds, stats, recheck):
            stats.violation({'kind': 'text', 'text': text, 'message': msg, 'signature': sig + ':atheris'})
        return stats
    if kind == 'gaps':
        strat = st.tuples(programs(features=SEQ_FEATURES, size=dict(main_stmts=4, funcs=2)),
                          st.sampled_from([40, 300, 900, 1100, 1600, 2500, 5000]), st.integers(0, 3), st.sampled_from(['blank', 'spaces', 'comment', 'mixed']))

        def chk_gap(v):
            return check_gaps(stats, v[0], v[1], v[2], v[3])
        from harness.progcase import case_json
        search(strat, chk_gap, seed=derive_seed(seed, 'C12', kind, k), max_examples=60 if tier == 'quick' else 600, stats=stats,
               to_case=lambda v, m: dict(case_json(*v[0]), gap=[v[1], v[2], v[3]], kind='gaps', message=m))
        stats.sample({'kind': 'gaps', 'note': 'one separator replaced by 40..5000 token-free lines'})
        return stats
    if kind == 'twin':
        def chk_twin(name):
            if stats.evaluations % 300 == 0:
                stats.sample({'kind': 'twin', 'text': name})
            return check_twin(stats, name)
        search(twin_names(), chk_twin, seed=derive_seed(seed, 'C12', kind, k), max_examples=2500 if tier == 'quick' else 40000, stats=stats,
               to_case=lambda v, m: {'kind': 'twin', 'text': v, 'message': m})
        return stats
    if kind in ('spelled', 'raw'):
        strat = spelled_text() if kind == 'spelled' else raw_text()
        n = 3000 if tier == 'quick' else 40000

        def chk(text):
            if stats.evaluations % 400 == 0:
                stats.sample({'kind': kind, 'text': text})
            return check_text(stats, text)

        search(strat, chk, seed=derive_seed(seed, 'C12', kind, k), max_examples=n, stats=stats,
               to_case=lambda v, m: {'kind': 'text', 'text': v, 'message': m})
        return stats
    n = 150 if tier == 'quick' else 1500
    strat = st.tuples(programs(features=ALL_FEATURES if k % 2 else SEQ_FEATURES, size=dict(main_stmts=6, funcs=3)),
                      st.lists(st.integers(0, 99), min_size=5, max_size=40), st.lists(st.integers(0, 99), min_size=5, max_size=40))

    def chk2(v):
        case, s1, s2 = v
        return check_layout(stats, case, s1, s2)

    from harness.progcase import case_json
    search(strat, chk2, seed=derive_seed(seed, 'C12', kind, k), max_examples=n, stats=stats,
           to_case=lambda v, m: dict(case_json(*v[0]), seq1=v[1], seq2=v[2], kind='layout', message=m))
    stats.sample({'kind': 'layout', 'note': 'programs from gen.programs rendered with two random layouts'})
    return stats


def replay(case):
    try:
        if case['kind'] == 'gaps':
            from harness.progcase import case_from_json
            r = check_gaps(Stats(), case_from_json(case), *case['gap'])
        elif case['kind'] == 'twin':
            r = check_twin(Stats(), case['text'])
        elif case['kind'] == 'text':
            r = check_text(Stats(), case['text'])
        else:
            from harness.progcase import case_from_json
            r = check_layout(Stats(), case_from_json(case), case['seq1'], case['seq2'])
    except Discard:
        return None
    return r[1] if r else None
