"""C10 - the compiler is total: every input yields assembly or a located diagnostic."""
import os
import random
import subprocess
import sys
import tempfile

from hypothesis import strategies as st

from gen.programs import programs, ALL_FEATURES, SEQ_FEATURES
from hast.printer import to_source, tokens_of, NL
from harness.runner import Stats, case_hash
from harness.hyp import search, derive_seed, Discard
from harness import hidc_driver as H
from ref import lex as RL
import svm

PROPERTY = 'C10'
RULE = ('Inputs: (a) Hypothesis Unicode text and lexer-biased ASCII text; (b) token soups over the full token alphabet; (c) '
        'token-level mutations (delete, duplicate, swap, replace, splice, bracket damage) of the example corpus and of '
        'generated programs; (d) generated well-typed programs and targeted ill-formed variants (non-constant / oversized '
        'globals, bad entry points, assignments to string elements, arrays of empty calls, ...); (e) well-typed programs whose function, '
        'global, parameter and local names come from a pool imitating the compiler\'s own label scheme (s, s_0, s_1, loop_0, func_s, var_x, '
        'halt, ...) with several overloads and flavours per name and array functions instantiated for two storage classes - these must '
        'assemble and print what the calls in the source say. Options: word size in '
        '{8,16,24,32,64} bits, stack size in {0,1,5,500,10^6, too large}, unchecked, lint. Nesting depth <= 30 by '
        'construction. Oracle, in process (parse -> evaluate -> CodeGen -> gen_lines): the only exception allowed is '
        'CompilerError, every span in its context lies inside the source, get_info() renders; on success the output must '
        'assemble on the strict assembler. CLI (python -m hidc, subprocess) on the first occurrences of every distinct '
        'CodeGenError diagnostic per shard and a 2% sample of everything: failure => exit status != 0, a diagnostic on stderr, no output file and a pre-existing file left '
        'untouched; success => exit 0 and the file equals the in-process output; a third of the runs omit -o (the tool then writes <input>.s, which must not exist after a failure). Non-trivial: inputs that get past the '
        'parser (typechecker or code generator reached). Distinct by hash of (text, options).')
ASSUMPTIONS = ['"input text" = text decodable as UTF-8 without surrogates; nesting depth bounded by 30',
               'strict assembler svm/asm.py defines "the Sphinx assembler accepts it"']
MIN_NONTRIVIAL = 300

WORD_BITS = [8, 16, 16, 16, 24, 32, 64]
STACKS = [0, 1, 5, 500, 500, 400, 500, 300, 1000, 10 ** 6, 16378, 16379, 40000]


def corpus():
    out = []
    ex = os.path.join(H.HIDC_REPO, 'examples')
    for name in sorted(os.listdir(ex)):
        if name.endswith('.hid'):
            out.append(open(os.path.join(ex, name)).read())
    return out


def check_span(span, lines, what):
    from hidc.lexer import Span, Cursor
    pts = [span] if isinstance(span, Cursor) else [span.start, span.end]
    for c in pts:
        if not (0 <= c.line < max(1, len(lines))):
            return '%s: line %d outside the source (%d lines)' % (what, c.line, len(lines))
        ln = lines[c.line] if lines else ''
        if not (0 <= c.col <= len(ln)):
            return '%s: column %d outside line %d (length %d)' % (what, c.col, c.line, len(ln))
    return None


def compile_inproc(src, bits, S, unchecked, lint):
    """-> ('ok', lines) | ('diag', exc) | ('crash', exc)"""
    source = H.SourceCode.from_string(src, '<fuzz>')
    try:
        env = H.Environment.empty(unreachable_error=lint)
        H.parse(source).evaluate(env)
        cg = H.CodeGen(env, bits // 8, S, unchecked)
        lines = list(cg.gen_lines())
        return 'ok', lines, source
    except H.CompilerError as e:
        return 'diag', e, source
    except RecursionError as e:
        return 'recursion', e, source
    except BaseException as e:  # noqa: anything else escaping is the violation
        if isinstance(e, (KeyboardInterrupt, SystemExit, MemoryError)):
            raise
        return 'crash', e, source


def stage_of(kind, val):
    if kind == 'ok':
        return 'codegen_ok'
    if kind == 'diag':
        return type(val).__name__
    return kind


def nesting(src):
    d = m = 0
    for ch in src:
        if ch in '([{':
            d += 1
            m = max(m, d)
        elif ch in ')]}':
            d = max(0, d - 1)
    # unary chains
    run = best = 0
    for tok in src.replace('not', '-').split():
        pass
    for ch in src:
        if ch in '-+ ':
            if ch != ' ':
                run += 1
                best = max(best, run)
        else:
            run = 0
    return max(m, best)


def run_cli(src, bits, S, unchecked, lint, expect_lines, default_out=False):
    """-> None or message.  default_out: no -o option, the tool writes <input>.s (and says so on stdout)."""
    with tempfile.TemporaryDirectory(prefix='c10cli') as d:
        inp = os.path.join(d, 'prog.hid')
        outp = inp + '.s' if default_out else os.path.join(d, 'out.s')
        with open(inp, 'w', encoding='utf-8', newline='\n') as f:
            f.write(src)
        marker = b'PRE-EXISTING CONTENT\n'
        if not default_out:
            with open(outp, 'wb') as f:
                f.write(marker)
        cmd = [sys.executable, '-m', 'hidc', inp, '-m', str(bits), '-s', str(S)]
        if not default_out:
            cmd += ['-o', outp]
        if unchecked:
            cmd.append('--unchecked')
        if lint:
            cmd.append('--lint')
        env = dict(os.environ, PYTHONPATH=H.HIDC_REPO, PYTHONIOENCODING='utf-8')
        r = subprocess.run(cmd, cwd=H.HIDC_REPO, capture_output=True, env=env, timeout=120)
        exists = os.path.exists(outp)
        content = open(outp, 'rb').read() if exists else None
        others = sorted(set(os.listdir(d)) - {'prog.hid', os.path.basename(outp)})
        if others:
            return 'CLI left unexpected files next to the input: %r' % others
        if expect_lines is None:
            if r.returncode == 0:
                return 'CLI exits 0 although compilation fails in process'
            if not r.stderr.strip():
                return 'CLI fails (exit %d) without any diagnostic on stderr' % r.returncode
            if b'Traceback (most recent call last)' in r.stderr:
                return 'CLI dies with a traceback: %r' % r.stderr[-300:]
            if default_out:
                if exists:
                    return 'CLI failed (exit %d) but left an output file %s (%d bytes)' % (r.returncode, os.path.basename(outp), len(content))
            elif content != marker:
                return 'CLI failed (exit %d) but the output file was %s (%r...)' % (
                    r.returncode, 'removed' if content is None else 'modified/truncated', (content or b'')[:40])
            return None
        if r.returncode != 0:
            return 'CLI exits %d although compilation succeeds in process; stderr %r' % (r.returncode, r.stderr[-300:])
        want = b''.join(l + b'\n' for l in expect_lines)
        if content != want:
            return 'CLI output file %s differs from the in-process output (%s vs %d bytes)' % (
                os.path.basename(outp), 'missing' if content is None else '%d' % len(content), len(want))
        return None


def check_input(stats, src, bits, S, unchecked, lint, cli_roll, allow_cli=True):
    if '\r' in src or any(0xD800 <= ord(c) <= 0xDFFF for c in src):
        raise Discard('outside the input domain (CR / surrogate)')
    if nesting(src) > 30:
        raise Discard('nesting deeper than 30')
    if bits // 8 < 1:
        raise Discard('word size below one byte')
    kind, val, source = compile_inproc(src, bits, S, unchecked, lint)
    stats.evaluated()
    stage = stage_of(kind, val)
    stats.cls('stage_' + stage)
    opts = 'm=%d s=%d unchecked=%s lint=%s' % (bits, S, unchecked, lint)
    if stage in ('TypeCheckError', 'CodeGenError', 'codegen_ok'):
        stats.nt(case_hash([src, bits, S, unchecked, lint]))
    if kind == 'recursion':
        return ('recursion', 'RecursionError on an input of nesting depth %d (%s)\n%s' % (nesting(src), opts, src))
    if kind == 'crash':
        import traceback
        tb = ''.join(traceback.format_exception(type(val), val, val.__traceback__)[-4:])
        where = traceback.extract_tb(val.__traceback__)[-1]
        return ('crash:%s:%s:%d' % (type(val).__name__, os.path.basename(where.filename), where.lineno),
                'internal exception escapes the compiler (%s): %s: %s\n%s\n%s' % (opts, type(val).__name__, val, tb, src))
    expect_lines = None
    if kind == 'diag':
        lines = source.lines
        for sp in val.context:
            m = check_span(sp, lines, type(val).__name__)
            if m:
                return ('span', 'diagnostic position outside the source: %s (%s)\n%s' % (m, val, src))
        try:
            info = val.get_info(source)
            if not isinstance(info, str) or not info:
                return ('render', 'get_info() returned %r' % (info,))
        except BaseException as e:  # noqa
            return ('render', 'diagnostic cannot be rendered: %s: %s (%s)\n%s' % (type(e).__name__, e, val, src))
    else:
        expect_lines = val
        try:
            svm.assemble(val, svm.synth_args(val))
        except svm.AsmError as e:
            return ('asm', 'output does not assemble: %s (%s)\n%s' % (e, opts, src))
    import hashlib
    # must be a pure function of the input (Hypothesis replays inputs): every CodeGenError other than the three
    # that text fuzzing produces in bulk goes through the CLI, everything else is sampled by a hash of the text
    roll = hashlib.blake2b(src.encode('utf-8', 'replace'), digest_size=2).digest()[0]
    want_cli = cli_roll == 0 or roll < 5
    if stage == 'CodeGenError':
        bulk = any(k in str(val) for k in ('Level is empty', 'tack size too large', 'ord size must'))
        want_cli = want_cli or not bulk or roll < 20
    if want_cli and allow_cli:
        stats.cls('cli_runs')
        stats.cls('cli_for_' + stage)
        try:
            m = run_cli(src, bits, S, unchecked, lint, expect_lines, default_out=(roll % 3 == 0))
        except (UnicodeEncodeError, subprocess.TimeoutExpired):
            raise Discard('cli run not possible')
        if m:
            return ('cli:' + m.split(' ')[1], 'CLI contract broken (%s): %s\n%s' % (opts, m, src))
    return None


# ---- generators ---------------------------------------------------------------
TOKEN_ALPHABET = (list(RL.SYMBOLS) + sorted(RL.KEYWORDS) +
                  ['x', 'y', 'f', '@is_you', '@g', '!d', '!is_defeat', 'write', 'writeln', 'length', 'args',
                   '0', '1', '255', '256', '65536', '0x10', "'a'", "'\\n'", '"s"', '""', '"\\x00"'])


def token_soup():
    return st.lists(st.sampled_from(TOKEN_ALPHABET), max_size=40).map(' '.join)


def ascii_text():
    alpha = list('abxy_01 \n\t"\'\\/+-*%=!<>?.;,()[]{}@') + ['int ', 'empty ', 'if', 'try', 'undo', 'stop', '??', '//', 'is ', '@is_you', 'string ']
    return st.lists(st.sampled_from(alpha), max_size=60).map(''.join)


def spell_tokens(src):
    try:
        toks = RL.lex(src)
    except (RL.RefLexError, RL.OutOfDomain):
        return None
    lines = src.split('\n')
    return [lines[t.span[0]][t.span[1]:t.span[3]] for t in toks]


def mutate_tokens(toks, ops, pool):
    toks = list(toks)
    for kind, a, b in ops:
        if not toks:
            break
        i = a % len(toks)
        j = b % len(toks)
        if kind == 0:
            del toks[i]
        elif kind == 1:
            toks.insert(i, toks[j])
        elif kind == 2:
            toks[i], toks[j] = toks[j], toks[i]
        elif kind == 3:
            toks[i] = pool[b % len(pool)]
        elif kind == 4:
            lo, hi = min(i, j), max(i, j)
            seg = toks[lo:hi + 1][:12]
            k = (a * 31 + b) % (len(toks) + 1)
            toks[k:k] = seg
        elif kind == 5:
            toks.insert(i, pool[b % len(pool)])
    out = []
    for k, t in enumerate(toks):
        out.append(t)
        out.append('\n' if t in (';', '{', '}') else ' ')
    return ''.join(out)


ILL_FORMED = [
    # (globals text, statement text placed first in @is_you)
    ('string gs = "Hello"; int gn = gs.length;', 'writeln(gn);'),
    ('int ga = 1; int gb = ga + 1;', 'writeln(gb);'),
    ('byte gbuf[40000];', 'gbuf[0] = 1;'),
    ('int gbig[20000];', 'gbig[0] = 1;'),
    ('int[] gl = [1, 2, f0()];\nint f0() { return 1; }', 'writeln(gl[0]);'),
    ('', 'string s = "abc"; s[0] = \'x\';'),
    ('empty fe() { }', 'write([fe()].length);'),
    ('empty fe() { }', 'int[] a = [fe()];'),
    ('', 'int a[3]; a = a;'),
    ('', 'write(([] is int[]).length);'),
    ('', '[];'),
    ('', 'write([].length);'),
    ('', "if ([]) { write('y'); } else { write('n'); }"),
    ('', 'bool eb = not []; write(eb);'),
    ('', 'write([] is bool);'),
    ('', 'while ([]) { }'),
    ('', 'write([] and true);'),
    ('empty takes(const int[] a) { write(a.length); }', 'takes([]);'),
    ('const bool[] gempty = [];', 'write(gempty.length);'),
    ('string[] gse = [];', 'write(gse.length);'),
    ('empty write(int a, int b) { write(a); write(b); }', 'write(1, 2);'),
    ('empty all_is_broken(string why) { write(why); }', 'all_is_broken("x"); write("after");'),
    ('int sleep(byte b) { return b; }', "write(sleep('a'));"),
    ('', 'write("abc"[1]); write("abc".length); write(("abc" is byte[])[2]);'),
    ('', "write([1, 2, 3][1]); write(['a', 'b'].length); write([true][0]);"),
    ('', 'writeln([][0]);'),
    ('', 'int x = 1 / 0;'),
    ('const int z = 0;', 'writeln(5 % z);'),
    ('', 'bool b[-1];'),
    ('', 'write(1, 2);'),
    ('', 'print("x");'),
    ('empty @is_you(int q) { }', ''),
    ('int gx = gx;', 'writeln(gx);'),
    ('int[] gr = gr;', 'writeln(gr.length);'),
    ('const string[] gss = ["a", "b"]; string g1 = gss[0];', 'write(g1);'),
    ('bool gflag = not false; int gq = gflag is int;', 'write(gq);'),
]
# constant index into constant data at and around the length (the compiler may fold it, reject it with a diagnostic or
# leave it to the run-time check - but it must not fall over)
for _src, _n in (('"abc"', 3), ('""', 0), ('cs', 2), ('gs', 4), ('[1, 2, 3]', 3), ("['a', 'b']", 2), ('gt', 2), ('[true, false]', 2), ('lt', 3)):
    for _i in (-1, _n - 1, _n, _n + 1, 255, 256, 65536, -65536):
        ILL_FORMED.append(('const string gs = "wxyz"; const int[] gt = [7, 8];',
                           'const string cs = "ab"; const byte[] lt = [1, 2, 3]; write(%s[%s] is int); write(%s[(%s)] is bool);' % (
                               _src, _i if _i >= 0 else '(%d)' % _i, _src, _i)))
# every subset of the output routines used alone (a library that is emitted selectively must stay closed under its own jumps)
_USES = {'int': 'write(n); writeln(n + 1);', 'bool': 'write(n > 1);', 'string': 'write("s"); writeln(gs);', 'cbytes': 'write(gt2); write("q" is byte[]);',
         'sbytes': "byte[] sb = [n is byte, 'b']; write(sb);", 'byte': "write('c');", 'terminal': 'if (n == 77) { all_is_broken(); }', 'sleep': 'sleep(0);'}
LIBRARY_SUBSETS = []
for _mask in range(1 << 5):
    _names = [k for i, k in enumerate(('int', 'bool', 'string', 'cbytes', 'sbytes')) if _mask >> i & 1]
    for _extra in ((), ('byte',), ('terminal', 'sleep')):
        LIBRARY_SUBSETS.append(('const string gs = "wxyz"; const byte[] gt2 = [104, 105];',
                                'int n = 5; ' + ' '.join(_USES[k] for k in list(_names) + list(_extra))))
for _g in ('int g1[-1];', 'byte g1[-1];', 'bool g1[-1];', 'bool g1[-8];', 'string g1[-2];', 'const int H = 8; const int P = 4; byte g1[P - H];',
           'const int H = 8; int g1[H - 9];', 'int g1[0];', 'int g1[65536];', 'int g1[65537];', 'int g1[32768];', 'bool g1[65536 * 8];', 'int g1[-65535];',
           'int g1[-65536];', 'int[] g1 = [];', 'const int N = -3; int g1[N * N - 10];'):
    ILL_FORMED.append((_g, 'write(g1.length);'))
    ILL_FORMED.append((_g, 'if (g1.length > 0) { g1[0] = g1[0]; } write(g1.length);'))
for _stmt in ('return write(1);', 'return writeln("bye");', 'return gone();', 'return sleep(0);', 'if (false) { return debug(); }', 'return all_is_win();',
              'try { return !is_defeat(); } undo { }', 'int q = gone();', 'write(gone());', 'gone() ?? gone();', 'int[] z = [gone()];'):
    ILL_FORMED.append(('empty gone() { write("g"); }', _stmt))
for _g in ('string g0 = "abc"; byte g1 = g0[3];', 'const string g0 = "abc"; byte g1 = g0[3];', 'const string g0 = "abc"; byte g1 = g0[2];',
           'const int[] g0 = [1, 2]; int g1 = g0[2];', 'const int[] g0 = [1, 2]; int g1 = g0[1]; int g2[g1];', 'const int g0 = 3; int g1 = 7 / (g0 - 3);',
           'const int g0 = 3; int g1[g0 - 4];', 'const string g0 = ""; int g1 = g0.length; byte g2 = g0[g1];'):
    ILL_FORMED.append((_g, 'write(g1);'))
ENTRY_VARIANTS = ['empty @is_you(%s)', 'int @is_you(%s)', 'empty is_you(%s)', 'empty @is_you(bool b)', 'empty @is_you(string[] a)',
                  'empty @is_you(const int[] a, int[] b)', 'empty @is_you(bool[] a)', 'empty !is_you(%s)']


# ---- identifier pools that imitate the compiler's own label scheme -----------------------------------------
NAME_POOL = ['s', 's_0', 's_1', 's_2', 's_1_0', 's_0_1', 'x', 'x_0', 'x_1', 'loop', 'loop_0', 'loop_1', 'else_0', 'end_if_1', 'func_s', 'func_s_0',
             'var_x', 'var_x_0', 'arg_a', 'arg_a_0', 'end_call_0', 'break_1', 'continue_0', 'begin_try_0', 'try_handler_0', 'string_0', 'array_1',
             'halt', 'win', 'error', 'defeat', 'try_fp', 'main', 'start', 'fp', 'ap', 'r1', 'r2', 'write_int', 'stack_overflow']
SIGS = [('', ''), ('int a', '1'), ('int a, int b', '1, 2'), ('byte a', "'c'"), ('bool a', 'true'), ('string a', '"q"'),
        ('const int[] a', None), ('const byte[] a', None)]


@st.composite
def name_programs(draw):
    """Well-typed programs whose identifiers are drawn from NAME_POOL: several overloads and flavours per function name,
    globals, parameters and locals named like labels.  -> (source, expected output)"""
    pool = list(NAME_POOL)
    nf = draw(st.integers(2, 5))
    fnames = [pool[i] for i in draw(st.lists(st.integers(0, 9), min_size=nf, max_size=nf, unique=True))]     # mostly the s*/x* family
    if draw(st.booleans()):
        fnames.append(pool[draw(st.integers(10, len(pool) - 1))])
    gnames = [pool[i] for i in draw(st.lists(st.integers(0, len(pool) - 1), min_size=1, max_size=4, unique=True))]
    gnames = [g for g in gnames if g not in fnames]
    lname = pool[draw(st.integers(0, len(pool) - 1))]
    funcs = []
    calls = []
    expected = []
    tagno = 0
    glob = ''
    for gi, g in enumerate(gnames):
        kind = draw(st.integers(0, 3))
        glob += ['int %s = %d;\n' % (g, gi + 3), 'string %s = "g%d";\n' % (g, gi), 'int[] %s = [%d, 1];\n' % (g, gi + 3),
                 'const byte[] %s = [%d, 2];\n' % (g, gi + 60)][kind]
    for fn in fnames:
        used = set()
        for _ in range(draw(st.integers(1, 3))):
            flavor = ['', '', '!', '@'][draw(st.integers(0, 3))]
            params, args = SIGS[draw(st.integers(0, len(SIGS) - 1))]
            key = (flavor, params)
            if key in used:
                continue
            used.add(key)
            pname = lname if draw(st.booleans()) else 'a'
            if pname in gnames or pname == fn:
                pname = 'a'
            ps = params.replace(' a', ' ' + pname)
            tag = 'T%d' % tagno
            tagno += 1
            ret = draw(st.booleans())
            funcs.append('%s %s%s(%s) { write("%s;"); %s}\n' % ('int' if ret else 'empty', flavor, fn, ps, tag, 'return 4; ' if ret else ''))
            if args is None:
                # one function body instantiated for const-section and for stack storage
                el = 'int' if 'int' in params else 'byte'
                variants = ['[7, 8]', 'LOC']
                for v in variants[:draw(st.integers(1, 2))]:
                    calls.append((flavor, '%s%s(%s);' % (flavor, fn, v), tag, el))
            else:
                calls.append((flavor, '%s%s(%s);' % (flavor, fn, args), tag, None))
    order = draw(st.permutations(list(range(len(calls)))))
    body = ''
    lv = lname if lname not in gnames and lname not in fnames else 'lv'
    body += '  int %s = 1;\n  int[] LOCi = [%s, 2];\n  byte[] LOCb = [%s is byte, 2];\n' % (lv, lv, lv)
    for i in order:
        flavor, c, tag, el = calls[i]
        if el is not None:
            c = c.replace('LOC', 'LOCi' if el == 'int' else 'LOCb')
        if flavor == '!':
            body += '  try { %s } undo { write("U"); }\n' % c
        else:
            body += '  ' + c + '\n'
        expected.append(tag + ';')
    body += '  for (int k = 0; k < 2; k += 1) { if (k == 1) { write("L"); } else { write("E"); } }\n'
    expected.append('EL')
    src = glob + ''.join(funcs) + 'empty @is_you() {\n' + body + '}\n'
    return src, ''.join(expected)


def check_names(stats, src, expected, bits, unchecked):
    kind, val, source = compile_inproc(src, bits, 500, unchecked, False)
    stats.evaluated()
    stats.cls('names_' + stage_of(kind, val))
    opts = 'm=%d unchecked=%s' % (bits, unchecked)
    if kind == 'diag':
        # the pool contains names the language may reserve or that collide with built-ins: a located diagnostic is fine
        for sp in val.context:
            m = check_span(sp, source.lines, type(val).__name__)
            if m:
                return ('span', 'diagnostic position outside the source: %s (%s)\n%s' % (m, val, src))
        raise Discard('names program rejected: %s' % str(val)[:40])
    if kind != 'ok':
        return ('crash:names:' + type(val).__name__, 'internal exception (%s): %s: %s\n%s' % (opts, type(val).__name__, val, src))
    stats.nt(case_hash([src, bits, unchecked]))
    try:
        img = svm.assemble(val, svm.synth_args(val))
    except svm.AsmError as e:
        return ('asm:names', 'output does not assemble: %s (%s)\n%s' % (e, opts, src))
    # expected output: the reference interpreter on the independently parsed and typed source (it also decides which
    # overload a call binds to); the tags written by construction are only used when the reference declines
    from harness.execute import run_lines
    from harness.progcase import reference_for
    from ref.parse import parse_program
    from ref.types import check_program, RefTypeError
    try:
        prog = parse_program(src)
        check_program(prog)
    except RefTypeError as e:
        return ('names_typing', 'reference typechecker rejects (%s) a names program that hidc accepts\n%s' % (e, src))
    ref = reference_for(prog, [], bits // 8, checked=not unchecked)
    if ref.kind != 'win':
        raise Discard('reference: ' + ref.kind[:30])
    want = bytes(e[1] for e in ref.events if e[0] == 'out')
    run = run_lines(val, [], budget=2_000_000)
    if run.out != want or not run.won:
        return ('names_output', 'assembled program prints %r (flags %r), the reference interpreter %r (%s)\n%s' % (
            run.out, run.flags, want, opts, src))
    return None


def shards(tier):
    return [('names', 0), ('names', 1)] + [('text', 0), ('ascii', 0), ('ascii', 1), ('soup', 0), ('soup', 1), ('mut_corpus', 0), ('mut_corpus', 1), ('mut_corpus', 2),
            ('mut_gen', 0), ('mut_gen', 1), ('mut_gen', 2), ('programs', 0), ('programs', 1), ('illformed', 0), ('illformed', 1), ('options', 0),
            ('nesting', 0)] + ([('atheris', k) for k in range(6)] if tier == 'thorough' else [])


def opt_strategy():
    return st.tuples(st.sampled_from(WORD_BITS), st.sampled_from(STACKS), st.booleans(), st.booleans(), st.just(50))


def run_shard(desc, seed, tier):
    kind, k = desc
    stats = Stats()
    scale = 1 if tier == 'quick' else 15
    sd = derive_seed(seed, 'C10', kind, k)

    def to_case(v, m):
        src, (bits, S, unchecked, lint, roll) = v
        return {'kind': 'input', 'text': src, 'opts': [bits, S, unchecked, lint, roll], 'message': m}

    def chk(v):
        src, (bits, S, unchecked, lint, roll) = v
        if stats.evaluations % 250 == 0:
            stats.sample({'kind': kind, 'text': src[:600], 'opts': [bits, S, unchecked, lint]})
        return check_input(stats, src, bits, S, unchecked, lint, roll)

    if kind == 'atheris':
        # coverage-guided byte-level campaign (fuzz/target.py c10); even k: empty corpus, odd k: examples/*.hid + small programs
        from harness.fuzz import campaign

        def recheck(text):
            try:
                return check_input(Stats(), text, 16, 500, False, False, 50, allow_cli=False)
            except Discard:
                return None
        seeds = [] if k % 2 == 0 else [t for t in corpus() if len(t.encode()) <= 300] + [g + ' empty @is_you() { ' + b + ' }' for g, b in ILL_FORMED]
        for sig, msg, text in campaign('c10', sd, 150000, seeds, stats, recheck):
            stats.violation({'kind': 'input', 'text': text, 'opts': [16, 500, False, False, 50], 'message': msg, 'signature': sig + ':atheris'})
        return stats
    if kind == 'names':
        strat = st.tuples(name_programs(), st.sampled_from([16, 16, 24, 32]), st.booleans())

        def chk_names(v):
            (src, expected), bits, unchecked = v
            if stats.evaluations % 150 == 0:
                stats.sample({'kind': 'names', 'text': src[:700]})
            return check_names(stats, src, expected, bits, unchecked)
        search(strat, chk_names, seed=sd, max_examples=400 * scale, stats=stats, shrink=(tier == 'thorough'),
               to_case=lambda v, m: {'kind': 'names', 'text': v[0][0], 'expected': v[0][1], 'opts': [v[1], v[2]], 'message': m})
        return stats
    if kind == 'text':
        strat = st.tuples(st.text(st.characters(blacklist_categories=('Cs',), blacklist_characters='\r'), max_size=80), opt_strategy())
        search(strat, chk, seed=sd, max_examples=1500 * scale, stats=stats, to_case=to_case)
    elif kind == 'ascii':
        search(st.tuples(ascii_text(), opt_strategy()), chk, seed=sd, max_examples=1800 * scale, stats=stats, to_case=to_case)
    elif kind == 'soup':
        search(st.tuples(token_soup(), opt_strategy()), chk, seed=sd, max_examples=2500 * scale, stats=stats, to_case=to_case)
    elif kind in ('mut_corpus', 'mut_gen'):
        if kind == 'mut_corpus':
            bases = [t for t in (spell_tokens(s) for s in corpus()) if t]
            base_strat = st.sampled_from(bases)
        else:
            base_strat = programs(features=ALL_FEATURES, size=dict(main_stmts=6, funcs=3)).map(
                lambda c: [t for t in tokens_of(c[0]) if t != NL])
        ops = st.lists(st.tuples(st.integers(0, 5), st.integers(0, 10 ** 6), st.integers(0, 10 ** 6)), min_size=1, max_size=4)
        strat = st.tuples(st.tuples(base_strat, ops).map(lambda bo: mutate_tokens(bo[0], bo[1], TOKEN_ALPHABET)), opt_strategy())
        search(strat, chk, seed=sd, max_examples=(500 if kind == 'mut_corpus' else 700) * scale, stats=stats, to_case=to_case)
    elif kind == 'programs':
        strat = st.tuples(programs(features=ALL_FEATURES if k else SEQ_FEATURES).map(lambda c: to_source(c[0])), opt_strategy())
        search(strat, chk, seed=sd, max_examples=900 * scale, stats=stats, to_case=to_case)
    elif kind == 'illformed':
        def build(v):
            case, idx, entry, pos = v
            prog = case[0]
            src = to_source(prog)
            g, stmt = ILL_FORMED[idx % len(ILL_FORMED)]
            marker = 'empty @is_you ('
            i = src.find(marker)
            if i < 0:
                return g + '\n' + src
            j = src.find('{', i)
            head = src[i:j]
            if entry is not None:
                params = head[len(marker):head.rfind(')')]
                head = (entry % params if '%s' in entry else entry) + ' '
            return src[:i] + g + '\n' + head + '{\n' + stmt + '\n' + src[j + 1:]
        if k == 0:
            # every targeted entry once on a minimal host program, two option sets
            for g, stmt in ILL_FORMED + LIBRARY_SUBSETS:
                src = g + '\nempty @is_you() {\n' + stmt + '\n}\n'
                for o in ((16, 500, False, False, 50), (24, 300, True, False, 50)):
                    try:
                        m = chk((src, o))
                    except Discard as d:
                        stats.discard(d.why)
                        continue
                    if m:
                        stats.violation(dict(to_case((src, o), m[1]), signature=m[0] + ':targeted'))
        strat = st.tuples(st.tuples(programs(features=SEQ_FEATURES, size=dict(main_stmts=4, funcs=2)), st.integers(0, 1000),
                                    st.one_of(st.none(), st.none(), st.sampled_from(ENTRY_VARIANTS)), st.integers(0, 3)).map(build),
                          opt_strategy())
        search(strat, chk, seed=sd, max_examples=900 * scale, stats=stats, to_case=to_case)
    elif kind == 'nesting':
        # every nesting construct at every depth up to the stated bound (30); CLI (default recursion limit) at the bound
        def nests(d):
            return {
                'parens': 'empty @is_you() { write(' + '(' * d + '1' + ')' * d + '); }',
                'unary': 'empty @is_you() { write(' + '- ' * d + '1); }',
                'not': 'empty @is_you() { write(' + 'not ' * d + 'true); }',
                'blocks': 'empty @is_you() { ' + '{ ' * d + 'write(1); ' + '} ' * d + '}',
                'ifs': 'empty @is_you() { ' + 'if (true) { ' * d + 'write(1); ' + '} ' * d + '}',
                'elseif': 'empty @is_you(int x) { ' + ''.join('if (x == %d) { write(%d); } else ' % (k, k) for k in range(d)) + '{ write(0); } }',
                'loops': 'empty @is_you() { ' + 'while (false) { ' * d + 'break; ' + '} ' * d + '}',
                'index': 'int[] a = [0]; empty @is_you() { write(' + 'a[' * d + '0' + ']' * d + '); }',
                'calls': 'int f(int x) { return x; } empty @is_you() { write(' + 'f(' * d + '0' + ')' * d + '); }',
                'arrays': 'empty @is_you() { write(' + '[' * d + '1' + ']' * d + '.length); }',
                'tries': 'empty @is_you() { ' + 'try { write(1); } undo { ' * d + 'write(2); ' + '} ' * d + '}',
                'preempts': 'empty @is_you() { try { ' + 'preempt { ' * d + 'write(1); ' + '} ' * d + '} undo { } }',
                'casts': 'empty @is_you() { write(' + '(' * d + '1' + ' is byte)' * d + '); }',
                'speculation': 'empty @is_you() { int x = ' + '(' * d + '1' + ') + 1' * d + ' ?? 2; }',
            }
        for d in list(range(1, 31)):
            for name, src in nests(d).items():
                try:
                    m = check_input(stats, src, 16, 500, False, d % 2 == 0, 0 if d >= 27 else 50)
                except Discard as dd:
                    stats.discard(dd.why)
                    continue
                if m:
                    stats.violation({'kind': 'input', 'text': src, 'opts': [16, 500, False, d % 2 == 0, 0 if d == 30 else 50], 'message': m[1], 'signature': m[0] + ':nesting:' + name})
        stats.sample({'kind': 'nesting', 'constructs': sorted(nests(1)), 'depths': '1..30'})
        stats.exhaustive = True
    elif kind == 'options':
        # every option combination on the example corpus (CLI always)
        rnd = random.Random(sd)
        for src in corpus():
            for bits in (8, 16, 24, 64):
                for S in (0, 5, 500, 16379, 10 ** 6):
                    if rnd.random() < 0.5:
                        continue
                    m = check_input(stats, src, bits, S, rnd.random() < 0.5, rnd.random() < 0.5, 0 if rnd.random() < 0.15 else 50)
                    if m:
                        stats.violation({'kind': 'input', 'text': src, 'opts': [bits, S, False, False, 0], 'message': m[1], 'signature': m[0]})
        stats.sample({'kind': 'options sweep over examples/*.hid'})
    return stats


def replay(case):
    if case.get('kind') == 'names':
        try:
            r = check_names(Stats(), case['text'], case['expected'], case['opts'][0], case['opts'][1])
        except Discard:
            return None
        return r[1] if r else None
    bits, S, unchecked, lint, roll = case['opts']
    try:
        r = check_input(Stats(), case['text'], bits, S, unchecked, lint, roll)
    except Discard:
        return None
    return r[1] if r else None
