"""C07 - the typechecker accepts exactly the well-typed programs."""
import copy

from hypothesis import strategies as st

import hast
from hast import *  # noqa
from hast.printer import to_source
from gen.programs import programs, ALL_FEATURES, SEQ_FEATURES, argv_strings
from harness.runner import Stats, case_hash
from harness.hyp import search, derive_seed, Discard
from harness.execute import run_lines, S0
from harness import hidc_driver as H
from ref.parse import parse_program, RefParseError
from ref.types import check_program, RefTypeError
from ref.lex import RefLexError
from ref.interp import run_reference
from ref.constfold import f4_pattern
import svm

PROPERTY = 'C07'
RULE = ('(1) Hypothesis-generated well-typed programs with typing-heavy features (mixed byte/int arithmetic, literals in byte '
        'positions, const/mutable arrays and strings in every binding position, mixed-type array literals, overload sets of '
        '2-4 signatures differing in scalar type / element type / constness / arity, called with exact, coercible and literal '
        'arguments). (2) single-statement mutants of those: at a reachable site, a statement built from the variables visible '
        'there that exercises one rule of the property (assignment to const scalar / const array element / string element; '
        'non-literal int into byte in declaration, assignment, return, argument, array element, compound assignment; const '
        'array to mutable parameter or binding; mutable array bound to a const array variable; wrong arity / argument type; '
        'value in empty function, missing value, wrong type; undeclared names; redeclared / shadowing locals; duplicate '
        'parameters and signatures (also a built-in\'s); nested arrays, arrays of empty calls, indexed []; casts outside the '
        'README table; operand type errors) - and well-typed siblings of each. Oracle: accept/reject of '
        'parse(...).evaluate(env) must equal the verdict of the independent typechecker ref/types.py on the same text '
        '(both directions); for accepted programs the output on the VM must equal the reference interpreter\'s, which shows '
        'which overload ran. Non-trivial: every mutant, and every accepted program with a call that has >= 2 arity-compatible '
        'candidates. Distinct by hash of the source.')
ASSUMPTIONS = ['mutation sites are those every correct compiler must treat as reachable (see safe_sites): after conditional exits, loops with non-constant conditions, preempt blocks and tries whose handler can complete',
               'ref/types.py reads README "Types", "Arrays and strings", the cast table and tests/test_typecheck.py as documentation',
               'the compiler does not typecheck code it drops as unreachable (that is C16\'s subject), so sites whose '
               'reachability depends on constant conditions or on loops without a condition are not used']
MIN_NONTRIVIAL = 300


def hidc_verdict(src):
    """-> ('accept', None) | ('reject', msg) | ('parse', msg) | ('crash', msg)"""
    try:
        prog = H.parse(H.SourceCode.from_string(src))
    except H.CompilerError as e:
        return 'parse', '%s: %s' % (type(e).__name__, e)
    try:
        env = H.Environment.empty()
        prog.evaluate(env)
    except H.TypeCheckError as e:
        return 'reject', str(e)
    except H.CompilerError as e:
        return 'reject', '%s: %s' % (type(e).__name__, e)
    except Exception as e:  # noqa
        return 'crash', '%s: %s' % (type(e).__name__, e)
    return 'accept', None


def ref_verdict(src):
    try:
        prog = parse_program(src)
    except (RefParseError, RefLexError) as e:
        return 'parse', str(e), None, None
    try:
        ck = check_program(prog)
    except RefTypeError as e:
        return 'reject', e.rule, prog, None
    return 'accept', None, prog, ck


MAY_EXIT_CALLS = {'!is_defeat', '!truth_is_defeat', 'all_is_win', 'all_is_broken'}


def may_exit(s):
    for n in hast.walk(s):
        if isinstance(n, (Return, Break, Continue, While, For, Try, Preempt)):
            return True
        if isinstance(n, Call) and (n.name in MAY_EXIT_CALLS or n.name.startswith('!')):
            return True
    return False


def safe_sites(ck):
    """Sites that every correct compiler must treat as reachable (a sound under-approximation of "can be reached"):
    all earlier statements of the block, and of every enclosing block, can complete normally by the language's own
    control-flow rules, and the block itself is entered under a non-constant condition.  A statement can complete if it
    is a plain statement (calls that *may* defeat included), `!truth_is_defeat` of a non-constant condition, an if whose
    condition is not constant and one of whose arms (or the missing else) can complete, a loop with a non-constant
    condition (it may run zero times), a preempt block (it may be skipped), a try whose body can complete or whose
    handler can complete while the body contains a call that may defeat.  Anything else (return, break, continue,
    !is_defeat(), terminal calls, constant conditions, loops without condition) taints what follows."""
    const_names = set()
    for n in hast.walk(ck.prog):
        if isinstance(n, Decl) and n.const and not is_arr(n.ty):
            const_names.add(n.name)

    def nonconst(e):
        if e is None:
            return False
        for n in hast.walk(e):
            if isinstance(n, Call):
                return True
            if isinstance(n, Var) and n.name not in const_names:
                return True
        return False

    def may_defeat(b):
        return any(isinstance(n, Call) and n.name.startswith('!') for n in hast.walk(b))

    def completes(s):
        if isinstance(s, Block):
            return all(completes(x) for x in s.stmts)
        if isinstance(s, (Return, Break, Continue)):
            return False
        if isinstance(s, ExprStmt) and isinstance(s.e, Call):
            if s.e.name in ('!is_defeat', 'all_is_win', 'all_is_broken'):
                return False
            if s.e.name == '!truth_is_defeat':
                return all(nonconst(a) for a in s.e.args)
            return True
        if isinstance(s, If):
            if not nonconst(s.cond):
                return False
            return completes(s.then) or s.els is None or completes(s.els)
        if isinstance(s, While):
            return nonconst(s.cond)
        if isinstance(s, For):
            return s.cond is not None and nonconst(s.cond) and (s.init is None or completes(s.init))
        if isinstance(s, Preempt):
            return True
        if isinstance(s, Try):
            return completes(s.body) or (completes(s.handler) and may_defeat(s.body))
        return True

    ok = set()
    in_try = set()      # sites inside a try body (where ??, try and you-calls are context errors)

    def visit(block, reachable, tried=False):
        r = reachable
        for i, s in enumerate(block.stmts):
            if r:
                ok.add((id(block), i))
            if tried:
                in_try.add((id(block), i))
            for sub, entered in sub_blocks(s):
                visit(sub, r and entered, tried or (isinstance(s, Try) and sub is s.body))
            if not completes(s):
                r = False
        if r:
            ok.add((id(block), len(block.stmts)))
        if tried:
            in_try.add((id(block), len(block.stmts)))

    def sub_blocks(s):
        out = []
        if isinstance(s, Block):
            out.append((s, True))
        elif isinstance(s, If):
            nc = nonconst(s.cond)
            if isinstance(s.then, Block):
                out.append((s.then, nc))
            if isinstance(s.els, Block):
                out.append((s.els, nc))
            elif s.els is not None:
                out += [(b, e and nc) for b, e in sub_blocks(s.els)]
        elif isinstance(s, While):
            if isinstance(s.body, Block):
                out.append((s.body, nonconst(s.cond)))
        elif isinstance(s, For):
            if isinstance(s.body, Block):
                out.append((s.body, s.cond is not None and nonconst(s.cond)))
        elif isinstance(s, Preempt):
            if isinstance(s.body, Block):
                out.append((s.body, True))
        elif isinstance(s, Try):
            if isinstance(s.body, Block):
                out.append((s.body, True))
            if isinstance(s.handler, Block):
                out.append((s.handler, may_defeat(s.body)))
        return out

    for f in ck.prog.funcs:
        visit(f.body, True)
    ck.try_sites = in_try
    return [st_ for st_ in ck.sites if st_[4] is not None and (id(st_[0]), st_[1]) in ok]


def V(name, t=None):
    return Var(name, t=t)


def I(v):
    return Lit('int', v, None, t=INT)


RULES = ['assign_const_scalar', 'assign_const_elem', 'assign_string_elem', 'assign_array_var', 'narrow_decl', 'narrow_assign',
         'narrow_return', 'narrow_arg', 'narrow_elem', 'narrow_compound', 'const_to_mutable_param', 'const_to_mutable_binding',
         'mutable_to_const_binding', 'wrong_arity', 'wrong_arg_type', 'return_value_in_empty', 'return_missing_value',
         'return_wrong_type', 'undeclared_var', 'undeclared_func', 'redeclare_local', 'shadow_local', 'nested_array',
         'array_of_empty', 'index_empty_literal', 'bad_cast', 'bad_operand', 'bool_int_equality', 'spec_on_string',
         'const_vla', 'literal_ok_byte', 'byte_arith_ok', 'mutable_to_const_param_ok', 'string_to_const_bytes_ok',
         'mixed_array_literal_ok', 'shadow_global_ok', 'redeclare_over_global', 'shadow_over_global', 'spec_operand_types']


def build_mutant(rule, site, draw, ck):
    """-> list of statements to insert at the site, or None if the site lacks the needed variables."""
    block, idx, vis, ret, func = site
    by = lambda pred: [n for n, v in vis.items() if pred(v)]   # noqa
    pick = lambda xs: draw(st.sampled_from(sorted(xs)))         # noqa
    ints = by(lambda v: v.ty == INT)
    bytes_ = by(lambda v: v.ty == BYTE)
    fresh = 'zz%d' % draw(st.integers(0, 999))
    if fresh in vis:
        return None
    if rule == 'assign_const_scalar':
        c = by(lambda v: v.const and v.ty in (INT, BYTE, BOOL, STRING))
        if not c:
            return [Decl(INT, True, fresh, I(3)), Assign(V(fresh), I(4))]
        n = pick(c)
        lit = {INT: I(1), BYTE: Lit('char', 65, None), BOOL: Lit('bool', True, None), STRING: Lit('string', b'x', None)}[vis[n].ty]
        return [Assign(V(n), lit)]
    if rule == 'assign_const_elem':
        c = by(lambda v: is_arr(v.ty) and v.ty[2] and v.ty[1] in (INT, BYTE, BOOL))
        if not c:
            return [Decl(arr(INT, True), True, fresh, ArrLit([I(1), I(2)])), Assign(Index(V(fresh), I(0)), I(5))]
        n = pick(c)
        lit = {INT: I(1), BYTE: Lit('char', 65, None), BOOL: Lit('bool', True, None)}[vis[n].ty[1]]
        return [draw(st.sampled_from([Assign(Index(V(n), I(0)), lit), AugAssign(Index(V(n), I(0)), '+', I(1))] if vis[n].ty[1] != BOOL else [Assign(Index(V(n), I(0)), lit)]))]
    if rule == 'assign_string_elem':
        c = by(lambda v: v.ty == STRING)
        if not c:
            return [Decl(STRING, False, fresh, Lit('string', b'abc', None)), Assign(Index(V(fresh), I(0)), Lit('char', 120, None))]
        return [Assign(Index(V(pick(c)), I(0)), Lit('char', 120, None))]
    if rule == 'assign_array_var':
        c = by(lambda v: is_arr(v.ty))
        if not c:
            return None
        n = pick(c)
        return [Assign(V(n), V(n))]
    if rule in ('narrow_decl', 'narrow_assign', 'narrow_return', 'narrow_arg', 'narrow_elem', 'narrow_compound'):
        if not ints:
            src = Bin('+', Len(Lit('string', b'ab', None)), I(1))
        else:
            src = draw(st.sampled_from([V(pick(ints)), Bin('+', V(pick(ints)), I(1)), Is(V(pick(ints)), INT), Un('-', V(pick(ints)))]))
        if draw(st.integers(0, 3)) == 0:
            # constant ints that are not literals: explicit casts and (in a you function) a ?? of two literals (F11, F12)
            consts = [Is(I(3), INT), Is(Lit('bool', True, None), INT), Bin('+', Is(I(3), INT), I(1)), Is(Lit('char', 65, None), INT)]
            if func.name.startswith('@') and (id(block), idx) not in getattr(ck, 'try_sites', ()):
                consts += [Spec(I(5), I(27)), Bin('*', Spec(I(5), I(5)), I(2))]
            src = draw(st.sampled_from(consts))
        if rule == 'narrow_decl':
            return [Decl(BYTE, False, fresh, src)]
        if rule == 'narrow_assign':
            m = [n for n in bytes_ if not vis[n].const]
            if not m:
                return [Decl(BYTE, False, fresh, Lit('char', 1, None)), Assign(V(fresh), src)]
            return [Assign(V(pick(m)), src)]
        if rule == 'narrow_return':
            if ret != BYTE:
                return None
            return [If(Lit('bool', False, None), Block([Return(src)]), None)]
        if rule == 'narrow_arg':
            return [ExprStmt(Call('write', [Index(ArrLit([Lit('char', 1, None), src]), I(0))]))] if draw(st.booleans()) else \
                [Decl(arr(BYTE, False), True, fresh, ArrLit([Lit('char', 65, None)])), ExprStmt(Call('sleep', [Index(V(fresh), src)])),
                 Assign(Index(V(fresh), I(0)), src)]
        if rule == 'narrow_elem':
            return [Decl(arr(BYTE, draw(st.booleans())), True, fresh, ArrLit([I(1), src]))]
        m = [n for n in bytes_ if not vis[n].const]
        if not m:
            return [Decl(BYTE, False, fresh, Lit('char', 1, None)), AugAssign(V(fresh), draw(st.sampled_from(['+', '-', '*', '/', '%'])), src)]
        return [AugAssign(V(pick(m)), draw(st.sampled_from(['+', '-', '*'])), src)]
    if rule in ('const_to_mutable_param', 'mutable_to_const_param_ok'):
        want_const = rule == 'const_to_mutable_param'
        # find a user function with a mutable / const array parameter and a matching array variable
        for f in ck.prog.funcs:
            if ck.funcs.get(f.name) and len(ck.funcs[f.name]) == 1 and not f.name.startswith(('@', '!')) and f is not func:
                for k, p in enumerate(f.params):
                    if is_arr(p.ty) and p.ty[2] != want_const:
                        c = by(lambda v: is_arr(v.ty) and v.ty[1] == p.ty[1] and v.ty[2] == want_const)
                        others_ok = all(not is_arr(q.ty) for j, q in enumerate(f.params) if j != k)
                        if c and others_ok:
                            args = []
                            for j, q in enumerate(f.params):
                                if j == k:
                                    args.append(V(pick(c)))
                                else:
                                    args.append({INT: I(1), BYTE: Lit('char', 65, None), BOOL: Lit('bool', True, None),
                                                 STRING: Lit('string', b's', None)}[q.ty])
                            return [ExprStmt(Call(f.name, args))]
        return None
    if rule in ('const_to_mutable_binding', 'mutable_to_const_binding'):
        want_src_const = rule == 'const_to_mutable_binding'
        c = by(lambda v: is_arr(v.ty) and v.ty[2] == want_src_const)
        if not c:
            return None
        n = pick(c)
        return [Decl(arr(vis[n].ty[1], not want_src_const), True, fresh, V(n))]
    if rule == 'wrong_arity':
        return [ExprStmt(draw(st.sampled_from([Call('write', [I(1), I(2)]), Call('sleep', []), Call('writeln', [I(1), Lit('char', 65, None)]),
                                               Call('debug', [I(1)]), Call('all_is_win', [Lit('bool', True, None)])])))]
    if rule == 'wrong_arg_type':
        return [ExprStmt(draw(st.sampled_from([Call('sleep', [Lit('string', b'x', None)]), Call('sleep', [Lit('bool', True, None)]),
                                               Call('write', [ArrLit([I(1), I(2)])]) if False else Call('write', [ArrLit([I(1000), I(2)])]),
                                               Call('write', [ArrLit([Lit('bool', True, None)])]),
                                               Call('!truth_is_defeat', [I(1)]) if False else Call('sleep', [ArrLit([I(1)])])])))]
    if rule == 'return_value_in_empty':
        if ret != EMPTY:
            return None
        vals_ = [I(1), Lit('bool', True, None), Lit('string', b'x', None), Call('debug', []), Call('write', [I(1)]), Call('sleep', [I(0)]),
                 ArrLit([I(1)])]
        empties = [f.name for f in ck.prog.funcs if f.ret == EMPTY and not f.params and not f.name.startswith(('@', '!')) and f.name != func.name]
        if empties:
            vals_.append(Call(pick(empties), []))
        return [If(Lit('bool', False, None), Block([Return(draw(st.sampled_from(vals_)) if len(vals_) < 8 else vals_[draw(st.integers(0, len(vals_) - 1))])]), None)]
    if rule == 'return_missing_value':
        if ret == EMPTY:
            return None
        return [If(Lit('bool', False, None), Block([Return(None)]), None)]
    if rule == 'return_wrong_type':
        if ret == EMPTY:
            return None
        bad = {INT: Lit('string', b'x', None), BYTE: Lit('bool', True, None), BOOL: I(1), STRING: I(0)}[ret]
        return [If(Lit('bool', False, None), Block([Return(bad)]), None)]
    if rule == 'undeclared_var':
        return [ExprStmt(Call('write', [V('nosuchvar')]))] if draw(st.booleans()) else [Assign(V('nosuchvar'), I(1))]
    if rule == 'undeclared_func':
        return [ExprStmt(Call('nosuchfunc', [I(1)]))]
    if rule == 'redeclare_local':
        return [Decl(INT, False, fresh, I(1)), Decl(draw(st.sampled_from([INT, BOOL])), False, fresh, I(2) if True else None)]
    if rule == 'shadow_local':
        locs = [n for n, v in vis.items() if not v.is_global]
        if locs:
            return [Block([Decl(INT, False, pick(locs), I(1))])]
        return [Decl(INT, False, fresh, I(1)), Block([Decl(INT, False, fresh, I(2))])]
    if rule == 'shadow_global_ok':
        globs = [n for n, v in vis.items() if v.is_global and not any(n in sc for sc in [{}])]
        locs = {n for n, v in vis.items() if not v.is_global}
        globs = [g for g in globs if g not in locs]
        if not globs:
            return None
        return [Block([Decl(INT, False, pick(globs), I(1))])]
    if rule == 'spec_operand_types':
        # the right operand of ?? is implicitly coerced to the left one's type (no explicit-cast conversions)
        if not func.name.startswith('@') or (id(block), idx) in getattr(ck, 'try_sites', ()):
            return None
        bools = by(lambda v: v.ty == BOOL)
        pairs = []
        if bytes_ and ints:
            pairs += [(V(pick(bytes_)), V(pick(ints))), (V(pick(bytes_)), Bin('+', V(pick(ints)), I(1))), (V(pick(ints)), V(pick(bytes_)))]
        if bools:
            pairs += [(V(pick(bools)), I(1)), (V(pick(bools)), Lit('char', 65, None)), (I(1), V(pick(bools)))]
        if ints:
            pairs += [(V(pick(ints)), Lit('bool', True, None)), (V(pick(ints)), Lit('string', b's', None)), (V(pick(ints)), I(3)),
                      (Lit('char', 66, None), V(pick(ints))), (Lit('char', 66, None), I(300) if False else I(7))]
        if not pairs:
            return None
        l, r = pairs[draw(st.integers(0, len(pairs) - 1))]
        return [ExprStmt(Call('write', [Spec(l, r)]))]
    if rule in ('redeclare_over_global', 'shadow_over_global'):
        # a local that legally shadows a global, then a second declaration of the same name (same scope / nested block /
        # body of a for loop whose variable has that name): the global's existence must not excuse the second one
        locs = {n for n, v in vis.items() if not v.is_global}
        globs = [n for n, v in vis.items() if v.is_global and n not in locs]
        if not globs:
            return None
        g = pick(globs)
        t2 = draw(st.sampled_from([INT, BOOL, STRING]))
        second = Decl(t2, False, g, {INT: I(2), BOOL: Lit('bool', True, None), STRING: Lit('string', b'oops', None)}[t2])
        if rule == 'redeclare_over_global':
            return [Block([Decl(INT, False, g, I(1)), second])]
        if draw(st.booleans()):
            return [Block([Decl(INT, False, g, I(1)), Block([second])])]
        return [For(Decl(INT, False, g, I(0)), Bin('<', V(g), I(1)), AugAssign(V(g), '+', I(1)), Block([second]))]
    if rule == 'nested_array':
        return [Decl(arr(INT, True), True, fresh, ArrLit([ArrLit([I(1)]), ArrLit([I(2)])]))] if draw(st.booleans()) else \
            [ExprStmt(Call('write', [Len(ArrLit([ArrLit([I(1)])]))]))]
    if rule == 'array_of_empty':
        return [ExprStmt(Call('write', [Len(ArrLit([Call('debug', [])]))]))]
    if rule == 'index_empty_literal':
        return [ExprStmt(Call('write', [Index(ArrLit([]), I(0))]))]
    if rule == 'bad_cast':
        s_ = Lit('string', b'ab', None)
        a_ = ArrLit([I(1), I(2)])
        return [ExprStmt(Call('write', [draw(st.sampled_from([Is(s_, INT), Is(s_, BYTE), Is(I(1), STRING), Is(a_, INT), Is(Lit('bool', True, None), STRING),
                                                              Is(I(1), arr(INT, True)), Is(s_, arr(INT, True)), Is(ArrLit([s_]), arr(INT, True))]))]))]
    if rule == 'bad_operand':
        s_ = Lit('string', b'ab', None)
        t_ = Lit('bool', True, None)
        return [ExprStmt(Call('write', [draw(st.sampled_from([Bin('+', t_, I(1)), Bin('<', s_, I(1)), Bin('*', s_, s_), Un('-', t_), Un('-', s_),
                                                              Bin('+', ArrLit([I(1)]), I(1)), Bin('<', t_, t_), Bin('==', s_, s_)]))]))]
    if rule == 'bool_int_equality':
        return [ExprStmt(Call('write', [Bin(draw(st.sampled_from(['==', '!='])), Lit('bool', True, None), I(1))]))]
    if rule == 'spec_on_string':
        return [ExprStmt(Call('write', [Bin('+', I(1), I(1)) if False else Is(I(1), STRING)]))] if False else \
            [Decl(STRING, False, fresh, Lit('string', b'a', None)), ExprStmt(Call('write', [Len(V(fresh))]))] + \
            [ExprStmt(Call('write', [Bin('==', V(fresh), I(1))]))]
    if rule == 'const_vla':
        d = ArrDecl(INT, fresh, I(3))
        d.t = 'const'
        return [d]
    # well-typed siblings (must be accepted)
    if rule == 'literal_ok_byte':
        return [Decl(BYTE, False, fresh, draw(st.sampled_from([I(7), I(255), Bin('+', I(1), I(1)), Bin('*', Lit('char', 2, None), I(3)), Un('-', I(1)) if False else Un('+', I(5))])))]
    if rule == 'byte_arith_ok':
        if not bytes_:
            return [Decl(BYTE, False, fresh, Lit('char', 1, None)), Decl(BYTE, False, fresh + 'b', Bin('+', V(fresh), I(1)))]
        return [Decl(BYTE, False, fresh, Bin(draw(st.sampled_from(['+', '-', '*', '/', '%'])), V(pick(bytes_)), draw(st.sampled_from([I(1), Lit('char', 3, None), V(pick(bytes_))]))))]
    if rule == 'string_to_const_bytes_ok':
        return [Decl(arr(BYTE, True), True, fresh, Lit('string', b'hey', None)), ExprStmt(Call('write', [V(fresh)]))]
    if rule == 'mixed_array_literal_ok':
        if not bytes_:
            return [Decl(arr(BYTE, False), True, fresh, ArrLit([I(1), Lit('char', 66, None)]))]
        return [Decl(arr(draw(st.sampled_from([BYTE, INT])), draw(st.booleans())), True, fresh, ArrLit([I(1), V(pick(bytes_))]))]
    raise ValueError(rule)


def strip_types(x):
    for n in hast.walk(x):
        if not isinstance(n, ArrDecl):
            n.t = None
    return x


def check_source(stats, src, label):
    """Differential verdict on one source text.  -> None | (sig, msg)"""
    hv, hmsg = hidc_verdict(src)
    rv, rrule, prog, ck = ref_verdict(src)
    stats.evaluated()
    stats.cls('%s_ref_%s' % (label, rv if rv != 'reject' else 'reject:' + rrule))
    if hv == 'crash':
        return ('crash', 'typechecker crashed: %s\n%s' % (hmsg, src))
    if hv == 'parse' or rv == 'parse':
        if hv != rv:
            return ('parse', 'parse-stage disagreement: hidc %s (%s), reference %s (%s)\n%s' % (hv, hmsg, rv, rrule, src))
        raise Discard('not parsable (both)')
    if hv != rv:
        return ('verdict:%s' % (rrule or 'accept'), 'typing verdicts differ: reference %s%s, hidc %s%s\n%s' % (
            rv, ' (rule %s)' % rrule if rrule else '', hv, ' (%s)' % hmsg if hmsg else '', src))
    return None


def check_case(stats, case, rule, data):
    prog, vals, ws = case
    src0 = to_source(prog)
    # (1) the well-typed program itself
    m = check_source(stats, src0, 'base')
    if m:
        return m
    rv, rrule, rprog, ck = ref_verdict(src0)
    if rv != 'accept':
        return ('generator', 'reference typechecker rejects a program the generator built as well-typed: %s\n%s' % (rrule, src0))
    multi = any(idx is not None and sum(1 for pts, _, _ in ck.funcs[c.name] if len(pts) == len(c.args)) >= 2
                for c, idx, _ in ck.calls if isinstance(c, Call))
    if multi:
        stats.nt(case_hash(src0))
        stats.cls('base_with_overload_choice')
        # which overload runs is visible in the output: compare VM and reference interpreter on the re-parsed, re-typed program
        if not f4_pattern(rprog, ws):
            ref = run_reference(rprog, vals, ws, budget=100_000)
            if not (ref.kind == 'budget' or ref.kind.startswith('undefined') or ref.kind == 'halt'):
                try:
                    lines = H.compile_source(src0, ws, S0)
                except H.CompilerError as e:
                    if 'ivision by zero' in str(e) or 'odulus of zero' in str(e):
                        lines = None
                    else:
                        return ('codegen', 'accepted by the typechecker but code generation fails: %s\n%s' % (e, src0))
                if lines is not None:
                    run = run_lines(lines, argv_strings(vals), budget=1_000_000)
                    stats.evaluated()
                    stats.cls('overload_runs')
                    if run.outcome != svm.BUDGET and (run.events != ref.events):
                        return ('overload_output', 'output differs (overload choice?): VM %r vs reference %r\n%s' % (run.out[:200], ref.output[:200], src0))
    # (2) one mutant
    sites = safe_sites(ck)
    if not sites:
        raise Discard('no safe mutation site')
    # statements right after a compound statement (loop, try, if, preempt) are where a compiler's reachability analysis
    # decides whether the rest of the block is typechecked at all: prefer them
    post = [st_ for st_ in sites if st_[1] > 0 and isinstance(st_[0].stmts[st_[1] - 1], (Try, While, For, If, Preempt))]
    post_try = [st_ for st_ in post if isinstance(st_[0].stmts[st_[1] - 1], Try)]
    roll = data.draw(st.integers(0, 9))
    pool = post_try if (post_try and roll < 3) else post if (post and roll < 6) else sites
    if pool is not sites:
        stats.cls('site_after_compound_statement')
    site = pool[data.draw(st.integers(0, len(pool) - 1))]
    stmts = build_mutant(rule, site, data.draw, ck)
    if stmts is None:
        stats.cls('mutant_not_applicable')
        return None
    block, idx = site[0], site[1]
    block.stmts[idx:idx] = [strip_types(copy.deepcopy(s)) for s in stmts]
    src1 = to_source(rprog)
    stats.cls('mutant_' + rule)
    stats.nt(case_hash(src1))
    return check_source(stats, src1, 'mutant')


def shards(tier):
    return list(range(16))


def run_shard(k, seed, tier):
    stats = Stats()
    n = 500 if tier == 'quick' else 8000
    feats = (ALL_FEATURES if k % 4 == 0 else SEQ_FEATURES) - {'faults'}
    size = dict(main_stmts=8, funcs=6, overload_pct=45)
    if 'tt' in feats:
        size.update(fallback_try_pct=35, uncond_exit_pct=12, search_loop_weight=5)
    strat = st.tuples(programs(features=feats, size=size), st.sampled_from(RULES), st.data())

    def chk(v):
        case, rule, data = v
        if stats.evaluations % 200 == 0:
            stats.sample({'rule': rule, 'base_source': to_source(case[0])[:1200]})
        return check_case(stats, case, rule, data)

    last_src = {}

    def to_case(v, m):
        return {'kind': 'source', 'message': m, 'source': m.split('\n', 1)[1] if '\n' in m else ''}

    search(strat, chk, seed=derive_seed(seed, 'C07', k), max_examples=n, stats=stats, to_case=to_case, shrink=False)
    return stats


def replay(case):
    src = case.get('source', '')
    if not src:
        return None
    try:
        r = check_source(Stats(), src, 'replay')
    except Discard:
        return None
    return r[1] if r else None
