"""C08 - every scope exit releases exactly what the scope allocated."""
from gen.programs import programs, ALL_FEATURES, SEQ_FEATURES, argv_strings
from harness.runner import Stats, case_hash
from harness.hyp import search, derive_seed, Discard
from harness.execute import S0, run_lines, compile_lines, find_smin
from harness.progcase import case_json, case_from_json, program_minimizer, reference_for, fmt_events
from harness import hidc_driver as H
from hast.printer import to_source
from ref.constfold import f4_pattern
from svm.monitors import FrameMonitor, MemMonitor
import svm

PROPERTY = 'C08'
RULE = ('(1) Hypothesis-generated programs with arrays (literal with call-valued elements, dynamic, aliased, passed) declared in '
        'nested blocks, loop bodies, callees and try bodies, left by every route: falling through, break, continue, return '
        '(also out of try bodies and preempt blocks), defeat caught by a stop block from call depth 0-2; argv; word sizes '
        '{2,3,4,8}. Oracle: a replay monitor on the committed path keyed on the emitted labels - a call returns to its '
        'end_call label with the (fp, ap) it had at the call jump; every back edge, continue point and exit of a loop instance '
        'sees the (fp, ap) the loop was entered with; the first statement of a stop handler and the end of the try statement '
        'see the (fp, ap) of try entry - plus the C04 entitlement monitor (an array released early shows as an access outside '
        'every live extent) and the differential against the reference interpreter at 400 words and at the minimal stack size '
        '(a leak shows as a spurious stack_overflow); for fault-free cases the same monitors and comparison also run on the --unchecked build. Non-trivial: the run released at least one array through a break, '
        'continue or return statement, or entered a stop handler. Distinct by hash of (source, argv, word size). (2) ScopeHistory, a '
        'RuleBasedStateMachine (props/c08_machine.py): rules append segments to the body of one counted loop, each guarded by the '
        'iteration number modulo a period P, so that successive iterations leave by different routes (fall through, continue, nested '
        'blocks, defeat caught from call depth 0-2 by stop/undo, continue out of a try body or handler, callees that return early while '
        'holding arrays, inner loops with break/continue); after every rule the program runs under both monitors and against the reference, '
        'and its minimal stack size for P iterations must equal the one for 3P iterations (footprint independent of the iteration count).')
ASSUMPTIONS = ['verification Sphinx VM (svm); label naming scheme of hidc (loop_N, continue_N, break_N, end_call_N, begin_try_N, '
               'try_handler_N, end_try_N): if it changes the monitor cannot attach and the check exits 2']
MIN_NONTRIVIAL = 100


def shards(tier):
    return list(range(16)) + [('machine', k) for k in range(4)]


def check_case(stats, case):
    prog, vals, ws = case
    if f4_pattern(prog, ws):
        stats.known('F4')
        raise Discard('known F4')
    src = to_source(prog)
    args = argv_strings(vals)
    ref = reference_for(prog, vals, ws)
    if ref.kind == 'budget' or ref.kind.startswith('undefined') or ref.kind == 'halt':
        raise Discard('reference gave up')
    try:
        lines = compile_lines(src, ws, S0, False)
    except H.CompilerError as e:
        if 'ivision by zero' in str(e) or 'odulus of zero' in str(e):
            raise Discard('constant division by zero')
        return ('rejected', 'rejected: %s\n%s' % (e, src))
    sizes = [S0]
    if ref.kind != 'fault:stack_overflow':
        smin = find_smin(src, args, ws)
        if smin is None:
            return ('overflow_at_S0', 'ws=%d argv=%r: stack_overflow at 400 words; reference: %s\n%s' % (ws, vals, ref.kind, src))
        sizes.append(smin)
    builds = [(S, False) for S in sizes]
    if not ref.kind.startswith('fault'):
        # the release code is shared with --unchecked builds, whose allocation sequence differs (no guards)
        builds.append((S0, True))
    for S, unchecked in builds:
        run = run_lines(compile_lines(src, ws, S, unchecked), args, budget=1_500_000)
        stats.evaluated()
        if run.outcome == svm.BUDGET:
            raise Discard('vm budget')
        where = 'ws=%d S=%d%s%s argv=%r' % (ws, S, ' (=S_min)' if S != S0 else '', ' --unchecked' if unchecked else '', vals)
        if unchecked:
            stats.cls('unchecked_builds_monitored')
        if run.res is None:
            return ('asm', '%s: %s\n%s' % (where, run.outcome, src))
        fm = FrameMonitor(run.prog)
        svm.VM(run.prog).replay(run.res.decisions, fm, max_steps=run.res.steps + 10)
        for k, v in fm.stats.items():
            stats.cls(k, v)
        if fm.violations:
            pc, what, ins, stmt, fn = fm.violations[0]
            return ('frames:' + what.split(' ')[0], '%s: %s  [pc %d `%s`; %s; %s]\n%s' % (where, what, pc, ins, stmt, fn, src))
        mm = MemMonitor(run.prog)
        svm.VM(run.prog).replay(run.res.decisions, mm, max_steps=run.res.steps + 10)
        if mm.violations:
            pc, what, ins, stmt, fn = mm.violations[0]
            return ('mem:' + what.split(' ')[0], '%s: %s  [pc %d `%s`; %s; %s]\n%s' % (where, what, pc, ins, stmt, fn, src))
        if run.events != ref.events or run.outcome != svm.FOREVER:
            return ('diff', '%s: events %s, reference %s\n%s' % (where, fmt_events(run.events), fmt_events(ref.events), src))
        if fm.stats['nonlocal_releases'] or ref.stats['choices'].get('stop:handler_ran'):
            stats.nt(case_hash([src, repr(vals), ws]))
    return None


def run_shard(k, seed, tier):
    stats = Stats()
    if isinstance(k, tuple):
        from props.c08_machine import run_machine
        run_machine(derive_seed(seed, 'C08', 'machine', k[1]), 25 if tier == 'quick' else 600, stats, steps=6, shrink=(tier == 'thorough'))
        stats.sample({'kind': 'ScopeHistory state machine', 'oracle': 'monitors + reference after every rule; S_min for P and 3P iterations equal'})
        return stats
    n = 170 if tier == 'quick' else 4000
    feats = (ALL_FEATURES if k % 2 else SEQ_FEATURES) - {'terminal', 'faults', 'bigvals'}
    strat = programs(features=feats, size=dict(main_stmts=10, funcs=4, decl_array_weight=24, break_weight=12, return_weight=8,
                                             try_decl_array_weight=(3 if k % 4 == 1 else 24), defeat_call_weight=(14 if k % 4 == 1 else 4),
                                             exit_preempt_pct=(35 if k % 4 == 3 else 12)))

    def chk(case):
        if stats.evaluations % 150 == 0:
            stats.sample({'source': to_source(case[0])[:1500], 'argv': repr(case[1]), 'ws': case[2]})
        return check_case(stats, case)

    quiet = Stats()
    mini = program_minimizer(lambda v: check_case(quiet, v), lambda v: v, lambda v, p: (p, v[1], v[2]), max_evals=60)
    search(strat, chk, seed=derive_seed(seed, 'C08', k), max_examples=n, stats=stats, shrink=(tier == 'thorough'),
           minimizer=mini, to_case=lambda v, m: dict(case_json(*v), message=m, kind='program'))
    if stats.evaluations > 50 and not (stats.classes['calls_checked'] and stats.classes['loop_edges_checked']):
        raise AssertionError('frame monitor could not attach: no call/loop labels were observed (label scheme changed?)')
    return stats


def replay(case):
    if case.get('kind') == 'machine':
        from props.c08_machine import replay_machine
        return replay_machine(case)
    prog, vals, ws = case_from_json(case)
    try:
        r = check_case(Stats(), (prog, vals, ws))
    except Discard:
        return None
    return r[1] if r else None
