"""C02 state machine: the history explored is the sequence of segments (try blocks, speculations, plain code,
you-helper calls) that a single run of @is_you passes through.  After every rule the program-so-far is compiled,
run on the VM and compared with the prophecy reference interpreter."""
import hypothesis
from hypothesis import strategies as st, settings, HealthCheck, Phase
from hypothesis.stateful import RuleBasedStateMachine, rule, invariant, initialize, precondition

from harness.progcase import check_source_program
from harness.hyp import Discard, derive_seed
from ref.constfold import f4_pattern

PRELUDE = r'''
int g0 = 3; int g1 = 0; bool gb = false; byte gy = 'k'; int[] ga = [1, 2, 3, 4];
int rd0() { return g0 + 1; }
int rd1() { write("<rd1>"); return g1; }
int bump0() { g0 += 1; return g0; }
int bump1(int k) { g1 = g1 + k; return g1; }
bool flip() { gb = not gb; return gb; }
byte nexty() { gy = (gy + 1) is byte; return gy; }
int peek(const int[] a, int i) { return a[i]; }
int poke(int[] a, int i, int v) { a[i] = v; return v; }
empty !d_plain(int x) { write("<dp>"); !truth_is_defeat(x > g1); write("<dp.>"); }
empty !d_arr(int x) { int[] t = [x, g0]; write(t[1]); !truth_is_defeat(x > 2); ga[0] = t[0]; }
empty !d_pre(int x) { write("<pre>"); preempt { write("<pre!>"); g1 += 1; return; } !truth_is_defeat(x > 0); write("<pre.>"); }
int !d_rec(int n) { if (n <= 0) { return 0; } write(n); preempt { write('^'); return n; } int r = !d_rec(n - 1); !truth_is_defeat(r == 0 and g0 > 3); return r + 1; }
empty !d_deep(int n) { if (n > 0) { !d_deep(n - 1); return; } !is_defeat(); }
empty !d_loop(int n) { for (int i = 0; i < n; i += 1) { preempt { write('~'); g0 += 1; continue; } !truth_is_defeat(i == 1 and g0 < 6); } }
int @y_undo(int x) { try { write("<yu>"); !truth_is_defeat(x > 1); g1 += 10; return x; } undo { write("<yu!>"); return 0 - x; } }
int @y_stop(int x) { try { write("<ys>"); g0 += 1; !d_plain(x); return 1; } stop { write("<ys!>"); } return 2; }
int @y_spec(int x) { int r = bump1(x) ?? 4; return r + (rd0() ?? x); }
'''

SMALL = st.integers(-1, 5)
IDX = st.integers(0, 3)

# parts usable inside a try body; {k} {i} {c} are small ints / indices / argv indices
BODY_PARTS = [
    'write("b{k}");',
    'g0 += {k};',
    'ga[{i}] = ga[{i}] + {k};',
    'g1 = bump1({k});',
    'preempt {{ write("P{k}"); g1 += 1; }}',
    'preempt {{ write("Q{k}"); pg = 1; }}',
    'preempt {{ write("R"); ga[{i}] = {k}; }}',
    '!truth_is_defeat(a[{c}] > {k});',
    '!truth_is_defeat(pg == 0 and a[{c}] != {k});',
    '!truth_is_defeat(g0 > {k} + 3);',
    '!is_defeat();',
    'if (a[{c}] > {k}) {{ !is_defeat(); }}',
    '!d_plain({k});',
    '!d_arr(a[{c}]);',
    '!d_pre(a[{c}] - {k});',
    'write(!d_rec({i}));',
    '!d_deep({i});',
    '!d_loop({i});',
    'for (int q{u} = 0; q{u} < {i}; q{u} += 1) {{ write(q{u}); if (q{u} == {k}) {{ break; }} preempt {{ write("L"); continue; }} !truth_is_defeat(q{u} == a[{c}]); }}',
    'int[] t{u} = [g0, {k}]; write(t{u}[0]);',
    'write(peek(ga, {i}));',
]
HANDLER_PARTS = [
    'write("h{k}");',
    'g1 += {k};',
    'ga[{i}] = {k};',
    'write(@y_undo({k}));',
    'write(@y_stop(a[{c}]));',
    'try {{ write("n"); !truth_is_defeat(a[{c}] > {k}); }} undo {{ write("N"); }}',
    'write(rd0() ?? {k});',
]
SPEC_FORMS = [
    'g0 = bump0() ?? {k};',
    'g0 = rd0() ?? {k};',
    'g0 = g0 ?? {k};',
    'g1 = bump1({k}) ?? g1;',
    'g1 = rd1() ?? g1;',
    'int s{u} = rd0() ?? g0; write(s{u});',
    'int s{u} = bump0() ?? {k}; write(s{u});',
    'ga[{i}] = peek(ga, {i}) ?? {k};',
    'ga[{i}] = poke(ga, {i}, {k}) ?? ga[{i}];',
    'g1 += bump1({k}) ?? {k};',
    'ga[{i}] += bump0() ?? {k};',
    'if ((flip() ?? true)) {{ write("T"); }} else {{ write("F"); }}',
    'gb = flip() ?? gb;',
    'gy = nexty() ?? gy; write(gy is int);',
    'write(ga[(rd0() ?? {i}) % 4]);',
    'write(bump1(bump0() ?? {k}));',
    'write(@y_spec({k}));',
    'write((bump0() ?? g0) + (rd0() ?? {k}));',
]


class Failure(Exception):
    pass


def fmt(t, draw_k, draw_i, draw_c, u):
    return t.format(k=draw_k, i=draw_i, c=draw_c, u=u)


class TimeTravelHistory(RuleBasedStateMachine):
    last_failure = None
    stats = None
    mode = 'diff'

    def __init__(self):
        super().__init__()
        self.segments = []
        self.argv = [1, 2, 0, 3]
        self.ws = 2
        self.u = 0
        self.checked_upto = 0

    @initialize(argv=st.lists(st.integers(-1, 4), min_size=4, max_size=4), ws=st.sampled_from([2, 2, 3, 4, 8]))
    def init(self, argv, ws):
        self.argv = argv
        self.ws = ws

    def uid(self):
        self.u += 1
        return self.u

    def parts(self, pool, picks):
        out = []
        for (p, k, i, c) in picks:
            out.append(fmt(pool[p % len(pool)], k, i, c, self.uid()))
        return ' '.join(out)

    PICK = st.tuples(st.integers(0, 999), SMALL, IDX, IDX)

    @rule(k=SMALL)
    def add_plain(self, k):
        self.segments.append('g0 += %d; write(g0); write(g1);' % k)

    @rule(body=st.lists(PICK, min_size=1, max_size=5), handler=st.lists(PICK, min_size=0, max_size=2), kind=st.sampled_from(['undo', 'stop']))
    def add_try(self, body, handler, kind):
        self.segments.append('{ int pg = 0; try { %s } %s { %s } write(pg); }' % (
            self.parts(BODY_PARTS, body), kind, self.parts(HANDLER_PARTS, handler)))

    @rule(form=st.integers(0, 999), k=SMALL, i=IDX, c=IDX)
    def add_speculation(self, form, k, i, c):
        self.segments.append(fmt(SPEC_FORMS[form % len(SPEC_FORMS)], k, i, c, self.uid()))

    @rule(body=st.lists(PICK, min_size=1, max_size=3), kind=st.sampled_from(['undo', 'stop']), n=st.integers(1, 3),
          exit_=st.sampled_from(['', 'break;', 'continue;', 'if (w%(u)d == 1) { break; }']), where=st.sampled_from(['body', 'handler', 'preempt']))
    def add_loop_around_try(self, body, kind, n, exit_, where):
        u = self.uid()
        ex = exit_.replace('%(u)d', str(u))
        b = self.parts(BODY_PARTS, body)
        h = 'write("H");'
        if where == 'body':
            b = b + ' ' + ex
        elif where == 'handler':
            h = h + ' ' + ex
        else:
            b = 'preempt { write("X"); %s } ' % ex + b
        # the loop may also call a you-function that enters a try of its own (shared try context: try_fp, defeat word)
        inner = ['', '', 'write(@y_stop(w%d));' % u, 'write(@y_undo(w%d));' % u, 'g1 = @y_stop(%d);' % n][(n + len(body) + len(ex)) % 5]
        self.segments.append('for (int w%d = 0; w%d < %d; w%d += 1) { int pg = 0; write(w%d); try { %s } %s { %s } %s write("."); }' % (
            u, u, n, u, u, b, kind, h, inner))

    @rule(which=st.sampled_from(['@y_undo', '@y_stop', '@y_spec']), k=SMALL)
    def add_call_you(self, which, k):
        self.segments.append('write(%s(%d));' % (which, k))

    def source(self):
        return PRELUDE + 'empty @is_you(const int[] a) {\n' + '\n'.join('  ' + s for s in self.segments) + \
            '\n  write(g0); write(g1); write(gb); write(ga[0]); write(ga[1]); write(ga[2]); write(ga[3]);\n}\n'

    @invariant()
    def agrees(self):
        if len(self.segments) == self.checked_upto:
            return
        self.checked_upto = len(self.segments)
        src = self.source()
        st_ = type(self).stats
        if type(self).mode == 'halt':
            # C03: only the invariant "never a committed halt", checked and (on fault-free runs) unchecked
            from harness.execute import execute
            import svm
            args = [str(x) for x in self.argv]
            for unchecked in (False, True):
                r = execute(src, args, ws=self.ws, unchecked=unchecked, budget=1_500_000)
                if st_ is not None:
                    st_.evaluated()
                    st_.cls('machine_steps_' + ('unchecked' if unchecked else 'checked'))
                    if r.res is not None and r.res.averted:
                        st_.nt('MH:' + src[len(PRELUDE):] + repr(self.argv) + str(self.ws) + str(unchecked))
                if r.outcome == svm.BUDGET or (unchecked and r.res is not None and r.res.faults):
                    break
                if r.outcome != svm.FOREVER:
                    type(self).last_failure = {'kind': 'machine', 'source': src, 'argv': list(self.argv), 'ws': self.ws, 'unchecked': unchecked,
                                               'message': 'ws=%d argv=%r unchecked=%s after %d segments: machine ended %s after events %r\n%s' % (
                                                   self.ws, self.argv, unchecked, len(self.segments), r.outcome, r.events[-6:], src),
                                               'signature': 'machine-halt'}
                    raise Failure(r.outcome)
                if set(r.flags) & {'stack_overflow', 'division_by_zero', 'out_of_bounds', 'nonlocal_preempt'}:
                    break
            return
        try:
            v = check_source_program(src, [list(self.argv)], self.ws, ref_budget=400_000)
        except Discard as d:
            if st_ is not None:
                st_.discard(d.why)
            return
        if st_ is not None:
            st_.evaluated()
            st_.cls('machine_steps')
            st_.cls('machine_ref_' + v.ref.kind)
            rs = v.ref.stats
            for k, n in rs['choices'].items():
                st_.cls('choice_' + k, n)
            if rs['flips'] >= 1 and rs['try_blocks'] >= 2:
                st_.nt('M:' + src[len(PRELUDE):] + repr(self.argv) + str(self.ws))
        if v.status != 'agree':
            type(self).last_failure = {'kind': 'machine', 'source': src, 'argv': list(self.argv), 'ws': self.ws,
                                       'message': 'ws=%d argv=%r after %d segments: %s\n%s' % (self.ws, self.argv, len(self.segments), v.msg, src),
                                       'signature': 'machine:' + str(v.sig)}
            raise Failure(v.msg)


def run_machine(seed, max_examples, stats, steps=8, shrink=True, mode='diff'):
    TimeTravelHistory.stats = stats
    TimeTravelHistory.mode = mode
    TimeTravelHistory.last_failure = None
    phases = [Phase.generate] + ([Phase.shrink] if shrink else [])
    cfg = settings(max_examples=max_examples, stateful_step_count=steps, database=None, deadline=None, derandomize=False,
                   report_multiple_bugs=False, suppress_health_check=list(HealthCheck), phases=phases, print_blob=False,
                   verbosity=hypothesis.Verbosity.quiet)
    machine = hypothesis.seed(seed)(TimeTravelHistory)
    try:
        hypothesis.stateful.run_state_machine_as_test(machine, settings=cfg)
    except Failure:
        if TimeTravelHistory.last_failure is not None:
            stats.violation(TimeTravelHistory.last_failure)
    finally:
        TimeTravelHistory.stats = None
        TimeTravelHistory.mode = 'diff'


def replay_machine(case):
    try:
        v = check_source_program(case['source'], [list(case['argv'])], case['ws'], ref_budget=400_000)
    except Discard:
        return None
    return None if v.status == 'agree' else v.msg
