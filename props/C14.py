"""C14 - compile-time evaluation is invisible."""
import copy

from hypothesis import strategies as st

import hast
from hast import *  # noqa
from hast.printer import to_source
from gen.programs import argv_strings
from harness.runner import Stats, case_hash
from harness.hyp import search, derive_seed, Discard
from harness.execute import run_lines, compile_lines, S0
from harness.progcase import reference_for, fmt_events, case_json
from harness import hidc_driver as H
from ref.constfold import f4_hits
import svm

PROPERTY = 'C14'
RULE = ('Hypothesis-generated typed constant expression trees (depth <= 5) over int / char / bool literals (boundary grid '
        'per word size, including values outside the signed word range), const variables, + - * / %, comparisons, equality, '
        'and/or/not, unary + -, is int / is byte / is bool; each used as writeln(E), as an if condition, as an array index, '
        'as a dynamic array length, as a global initialiser and (shifted into -1..5) as an index into a string literal, a const string and a const array of length 5; and (every fourth shard) array literals of 1-12 shallow constant expressions of one element type (bool / int / byte) bound to a mutable and a const array and passed as an argument, every element printed. Variants of one tree: all leaves constant, all leaves read '
        'from argv at run time, and drawn subsets of leaves de-constified (typing preserved by construction). Word sizes '
        '{2,3,4}. Oracle: every variant run on the VM must produce the events the reference interpreter computes with '
        'run-time semantics (so all variants agree with each other); the compiler may reject a variant only with a '
        'division/modulus-by-zero diagnostic and only if a constant sub-expression divides by a constant zero. A mismatch '
        'on a variant that still contains a constant int intermediate outside the signed word range is known finding F4. '
        'Non-trivial: the tree applies a non-ring operation (/ % comparison equality is-bool is-byte and or not) to a '
        'constant sub-expression that itself contains an operator. Distinct by hash of (tree, word size).')
ASSUMPTIONS = ['verification Sphinx VM (svm), floored div/mod', 'run-time semantics as implemented by ref/interp.py']
MIN_NONTRIVIAL = 200

NONRING = {'/', '%', '<', '<=', '>', '>=', '==', '!=', 'and', 'or'}


def grid(ws):
    hi = (1 << (8 * ws - 1)) - 1
    return [0, 1, 2, 3, 7, 10, 127, 128, 255, 256, 257, hi, hi - 1, hi // 2 + 1, hi + 1, 2 * hi + 1, 2 * hi + 2, 1 << (8 * ws), 1000, 100]


@st.composite
def const_expr(draw, ty, depth, ws):
    """-> hast expression of static type ty whose leaves are literals."""
    if depth <= 0 or draw(st.integers(0, 9)) < 2:
        if ty == INT:
            v = draw(st.one_of(st.sampled_from(grid(ws)), st.integers(0, 300)))
            return Lit('int', v, None, t=INT)
        if ty == BYTE:
            return Lit('char', draw(st.one_of(st.sampled_from([0, 1, 65, 127, 128, 255]), st.integers(0, 255))), None, t=BYTE)
        return Lit('bool', draw(st.booleans()), None, t=BOOL)
    num = st.sampled_from([INT, INT, BYTE])
    if ty == INT:
        k = draw(st.sampled_from(['arith', 'arith', 'arith', 'neg', 'cast']))
        if k == 'arith':
            op = draw(st.sampled_from(['+', '-', '*', '/', '%', '+', '-', '*']))
            return Bin(op, draw(const_expr(draw(num), depth - 1, ws)), draw(const_expr(draw(num), depth - 1, ws)), t=INT)
        if k == 'neg':
            return Un(draw(st.sampled_from(['-', '+'])), draw(const_expr(draw(num), depth - 1, ws)), t=INT)
        return Is(draw(const_expr(draw(st.sampled_from([BYTE, BOOL])), depth - 1, ws)), INT, t=INT)
    if ty == BYTE:
        return Is(draw(const_expr(draw(st.sampled_from([INT, INT, BOOL])), depth - 1, ws)), BYTE, t=BYTE)
    k = draw(st.sampled_from(['cmp', 'cmp', 'eq', 'logic', 'not', 'cast']))
    if k == 'cmp':
        return Bin(draw(st.sampled_from(['<', '<=', '>', '>='])), draw(const_expr(draw(num), depth - 1, ws)),
                   draw(const_expr(draw(num), depth - 1, ws)), t=BOOL)
    if k == 'eq':
        op = draw(st.sampled_from(['==', '!=']))
        if draw(st.booleans()):
            return Bin(op, draw(const_expr(BOOL, depth - 1, ws)), draw(const_expr(BOOL, depth - 1, ws)), t=BOOL)
        return Bin(op, draw(const_expr(draw(num), depth - 1, ws)), draw(const_expr(draw(num), depth - 1, ws)), t=BOOL)
    if k == 'logic':
        any_t = st.sampled_from([BOOL, BOOL, INT, BYTE])
        return Bin(draw(st.sampled_from(['and', 'or'])), draw(const_expr(draw(any_t), depth - 1, ws)),
                   draw(const_expr(draw(any_t), depth - 1, ws)), t=BOOL)
    if k == 'not':
        return Un('not', draw(const_expr(draw(st.sampled_from([BOOL, INT, BYTE])), depth - 1, ws)), t=BOOL)
    return Is(draw(const_expr(draw(st.sampled_from([INT, BYTE])), depth - 1, ws)), BOOL, t=BOOL)


def leaves(e, out):
    if isinstance(e, Lit):
        out.append(e)
    elif isinstance(e, (Un, Is)):
        leaves(e.e, out)
    elif isinstance(e, Bin):
        leaves(e.l, out)
        leaves(e.r, out)
    elif isinstance(e, ArrLit):
        for x in e.elems:
            leaves(x, out)
    return out


def has_ops(e):
    return not isinstance(e, Lit)


def nontrivial(e):
    for n in hast.walk(e):
        if isinstance(n, Bin) and n.op in NONRING and (has_ops(n.l) or has_ops(n.r)):
            return True
        if isinstance(n, Un) and n.op == 'not' and has_ops(n.e):
            return True
        if isinstance(n, Is) and n.ty in (BOOL, BYTE) and has_ops(n.e):
            return True
    return False


def build_variant(expr, mask, consts, ws):
    """mask[i]: leaf i is read at run time from argv; consts[i]: constant leaf i goes through a const variable.
    -> (Program, argv values)"""
    e = copy.deepcopy(expr)
    lv = leaves(e, [])
    decls = []
    gdecls = []
    argv = []
    repl = {}
    for i, leaf in enumerate(lv):
        if mask[i]:
            name = 'r%d' % i
            k = len(argv)
            src = Index(Var('a', t=arr(INT, True)), Lit('int', k, None, t=INT), t=INT)
            if leaf.kind == 'int':
                # argv values must be representable: pass the wrapped value (a literal out of range wraps too)
                b = 8 * ws
                v = leaf.value & ((1 << b) - 1)
                v = v - (1 << b) if v >> (b - 1) else v
                argv.append(v)
                decls.append(Decl(INT, False, name, src))
            elif leaf.kind == 'char':
                argv.append(leaf.value)
                decls.append(Decl(BYTE, False, name, Is(src, BYTE, t=BYTE)))
            else:
                argv.append(1 if leaf.value else 0)
                decls.append(Decl(BOOL, False, name, Bin('!=', src, Lit('int', 0, None, t=INT), t=BOOL)))
            repl[id(leaf)] = Var(name, t=leaf.t)
        elif consts[i]:
            name = 'c%d' % i
            gdecls.append(Decl(leaf.t, True, name, Lit(leaf.kind, leaf.value, None, t=leaf.t)))
            repl[id(leaf)] = Var(name, t=leaf.t)

    def sub(x):
        if isinstance(x, Lit):
            return repl.get(id(x), x)
        if isinstance(x, (Un, Is)):
            x.e = sub(x.e)
        elif isinstance(x, Bin):
            x.l = sub(x.l)
            x.r = sub(x.r)
        elif isinstance(x, ArrLit):
            x.elems = [sub(y) for y in x.elems]
        return x

    e = sub(e)
    ty = e.t
    if isinstance(e, ArrLit):
        # aggregate: the elements of one array literal are independently constant or run-time values
        el = ty[1]
        show = lambda x: Is(x, INT, t=INT) if el == BYTE else x      # noqa
        semi = ExprStmt(Call('write', [Lit('char', 59, None, t=BYTE)], t=EMPTY))
        body = list(decls)
        for nm, const_ in (('agg', False), ('cagg', True)):
            aty = arr(el, const_)
            lit_ = copy.deepcopy(e)
            lit_.t = aty
            body.append(Decl(aty, True, nm, lit_))
            iv = Var('i_' + nm, t=INT)
            body.append(For(Decl(INT, False, 'i_' + nm, Lit('int', 0, None, t=INT)), Bin('<', iv, Len(Var(nm, t=aty), t=INT), t=BOOL),
                            AugAssign(iv, '+', Lit('int', 1, None, t=INT)),
                            Block([ExprStmt(Call('write', [show(Index(Var(nm, t=aty), iv, t=el))], t=EMPTY)), semi])))
            body.append(ExprStmt(Call('writeln', [Len(Var(nm, t=aty), t=INT)], t=EMPTY)))
        arg = copy.deepcopy(e)
        arg.t = arr(el, True)
        body.append(ExprStmt(Call('show', [arg], t=EMPTY)))
        pty = arr(el, True)
        jv = Var('j', t=INT)
        shower = Func(EMPTY, 'show', [Param(pty, True, 'x')], Block([
            For(Decl(INT, False, 'j', Lit('int', 0, None, t=INT)), Bin('<', jv, Len(Var('x', t=pty), t=INT), t=BOOL),
                AugAssign(jv, '+', Lit('int', 1, None, t=INT)),
                Block([ExprStmt(Call('write', [show(Index(Var('x', t=pty), jv, t=el))], t=EMPTY)), semi]))]))
        prog = Program(gdecls, [shower, Func(EMPTY, '@is_you', [Param(arr(INT, True), True, 'a')], Block(body))])
        return prog, [argv]
    shown = Is(e, INT, t=INT) if ty == BYTE else e
    body = list(decls)
    body.append(ExprStmt(Call('writeln', [shown], t=EMPTY)))
    body.append(If(copy.deepcopy(e), Block([ExprStmt(Call('write', [Lit('char', 84, None, t=BYTE)], t=EMPTY))]),
                   Block([ExprStmt(Call('write', [Lit('char', 70, None, t=BYTE)], t=EMPTY))])))
    if ty != BOOL:
        five = Lit('int', 5, None, t=INT)
        idx = Bin('%', Paren(Bin('+', Paren(Bin('%', Paren(copy.deepcopy(e), t=ty), five, t=INT), t=INT), five, t=INT), t=INT), five, t=INT)
        tab = arr(INT, False)
        body.append(Decl(tab, True, 'tab', ArrLit([Lit('int', 10 + k, None, t=INT) for k in range(5)], t=tab)))
        body.append(ExprStmt(Call('write', [Index(Var('tab', t=tab), idx, t=INT)], t=EMPTY)))
        body.append(ArrDecl(BYTE, 'vla', Bin('+', copy.deepcopy(idx), Lit('int', 1, None, t=INT), t=INT)))
        body.append(ExprStmt(Call('write', [Len(Var('vla', t=arr(BYTE, False)), t=INT)], t=EMPTY)))
    if not any(mask):
        gdecls.append(Decl(ty, False, 'gval', copy.deepcopy(e)))
        gshown = Var('gval', t=ty)
        body.append(ExprStmt(Call('writeln', [Is(gshown, INT, t=INT) if ty == BYTE else gshown], t=EMPTY)))
    # a loop without break whose condition is the tree (a constant-false condition makes it dead code, never an infinite loop);
    # its body returns, so a true condition ends the run after one iteration
    loop_stmt = While(copy.deepcopy(e), Block([ExprStmt(Call('write', [Lit('char', 76, None, t=BYTE)], t=EMPTY)), Return(None)]))
    if ty != BOOL:
        # last (it may fault): the raw value, shifted into -1..5, indexes constant data of length 5 - a string literal, a
        # const string, a const array: a folded lookup must behave like the run-time one, also just outside either end
        seven, one = Lit('int', 7, None, t=INT), Lit('int', 1, None, t=INT)
        mk = lambda: Bin('-', Paren(Bin('%', Paren(copy.deepcopy(e), t=ty), seven, t=INT), t=INT), one, t=INT)   # noqa
        gdecls.append(Decl(STRING, True, 'cstr', Lit('string', b'vwxyz', None, t=STRING)))
        cty = arr(INT, True)
        gdecls.append(Decl(cty, True, 'ctab', ArrLit([Lit('int', 50 + k, None, t=INT) for k in range(5)], t=cty)))
        body.append(ExprStmt(Call('write', [Is(Index(Lit('string', b'abcde', None, t=STRING), mk(), t=BYTE), INT, t=INT)], t=EMPTY)))
        body.append(ExprStmt(Call('write', [Is(Index(Var('cstr', t=STRING), mk(), t=BYTE), INT, t=INT)], t=EMPTY)))
        body.append(ExprStmt(Call('write', [Index(Var('ctab', t=cty), mk(), t=INT)], t=EMPTY)))
        body.insert(len(body) - 3, ExprStmt(Call('write', [Lit('char', 35, None, t=BYTE)], t=EMPTY)))
        body.insert(len(body) - 3, loop_stmt)
        body.insert(len(body) - 3, ExprStmt(Call('write', [Lit('char', 36, None, t=BYTE)], t=EMPTY)))
    else:
        body.append(ExprStmt(Call('write', [Lit('char', 35, None, t=BYTE)], t=EMPTY)))
        body.append(loop_stmt)
        body.append(ExprStmt(Call('write', [Lit('char', 36, None, t=BYTE)], t=EMPTY)))
    prog = Program(gdecls, [Func(EMPTY, '@is_you', [Param(arr(INT, True), True, 'a')], Block(body))])
    return prog, [argv]


def check_tree(stats, expr, ws, masks, consts):
    nt = nontrivial(expr) or (isinstance(expr, ArrLit) and len(expr.elems) >= 2)
    n = len(leaves(copy.deepcopy(expr), []))
    results = []
    for mask in masks:
        mask = (list(mask) + [False] * n)[:n]
        prog, vals = build_variant(expr, mask, (list(consts) + [False] * n)[:n], ws)
        src = to_source(prog)
        hits = f4_hits(prog, ws)
        f4 = any(h != 'div0' for h in hits)
        stats.evaluated()
        stats.cls('variant_' + ('all_const' if not any(mask) else 'all_runtime' if all(mask) else 'mixed'))
        ref = reference_for(prog, vals, ws)
        if ref.kind == 'budget' or ref.kind.startswith('undefined'):
            raise Discard('reference gave up')
        try:
            lines = compile_lines(src, ws, S0, False)
        except H.CompilerError as e:
            msg = str(e)
            if ('ivision by zero' in msg or 'odulus of zero' in msg):
                if 'div0' in hits:
                    stats.cls('rejected_constant_div0')
                    continue
                return ('reject_div0', 'ws=%d: rejected with %r although no constant sub-expression divides by a constant zero\n%s' % (ws, msg, src))
            if ref.kind.startswith('fault:'):
                # the property allows rejecting a constant sub-expression whose run-time evaluation would fault
                stats.cls('rejected_where_run_time_faults')
                continue
            return ('rejected', 'ws=%d: variant rejected: %s: %s\n%s' % (ws, type(e).__name__, msg, src))
        run = run_lines(lines, argv_strings(vals), budget=300_000)
        if run.outcome == svm.BUDGET:
            raise Discard('vm budget')
        if f4:
            stats.cls('variants_with_out_of_range_constant')
        if run.events != ref.events or run.outcome != svm.FOREVER:
            if f4:
                stats.known('F4')
                stats.cls('known_F4_mismatch')
                continue
            return ('fold', 'ws=%d argv=%r: variant (mask %r) prints %s, run-time semantics give %s\n%s' % (
                ws, vals, mask, fmt_events(run.events), fmt_events(ref.events), src))
    if nt:
        stats.nt(case_hash([to_source(expr, 'full') if False else repr(hast.to_json(expr)), ws]))
    return None


@st.composite
def const_aggregate(draw, ws):
    """Array literal of 1..12 shallow constant expressions of one element type (bool literals are bit-packed, so
    lengths around 8 matter)."""
    el = draw(st.sampled_from([BOOL, BOOL, INT, BYTE]))
    n = draw(st.sampled_from([1, 2, 3, 4, 7, 8, 9, 12]))
    elems = [draw(const_expr(el, draw(st.sampled_from([0, 0, 1, 2])), ws)) for _ in range(n)]
    return ArrLit(elems, t=arr(el, False))


def shards(tier):
    return list(range(16))


def run_shard(k, seed, tier):
    stats = Stats()
    n = 400 if tier == 'quick' else 6000
    strat = st.sampled_from([2, 3, 4]).flatmap(lambda ws: st.tuples(
        const_aggregate(ws) if k % 4 == 3 else st.sampled_from([INT, INT, BOOL, BYTE]).flatmap(lambda ty: const_expr(ty, 5, ws)),
        st.just(ws),
        st.lists(st.lists(st.booleans(), min_size=32, max_size=32), min_size=1, max_size=3),
        st.lists(st.booleans(), min_size=32, max_size=32)))

    def chk(v):
        expr, ws, extra_masks, consts = v
        masks = [[False] * 32, [True] * 32] + extra_masks
        if stats.evaluations % 150 == 0:
            stats.sample({'expr': ' '.join(hast.printer.expr_tokens(expr)), 'ws': ws})
        if isinstance(expr, ArrLit):
            stats.cls('aggregate_trees')
        return check_tree(stats, expr, ws, masks, consts)

    import hast.printer  # noqa
    search(strat, chk, seed=derive_seed(seed, 'C14', k), max_examples=n, stats=stats,
           to_case=lambda v, m: {'kind': 'tree', 'expr': hast.to_json(v[0]), 'ws': v[1], 'masks': v[2], 'consts': v[3], 'message': m,
                                 'source_expr': ' '.join(hast.printer.expr_tokens(v[0]))})
    return stats


def replay(case):
    expr = hast.from_json(case['expr'])
    masks = [[False] * 32, [True] * 32] + case['masks']
    try:
        r = check_tree(Stats(), expr, case['ws'], masks, case['consts'])
    except Discard:
        return None
    return r[1] if r else None
