"""Strict assembler for the Sphinx dialect that hidc emits (DESIGN.md 2.1).

Accepts exactly what hidc emits plus what tests/test_codegen.py's hand-written
program uses.  Anything else is an AsmError: "the output assembles" (C10, C13)
means "this assembler accepts it".
"""
import re


class AsmError(Exception):
    pass


# escapes understood inside .ascii strings and character immediates
ESCAPES = {'\\': 0x5c, '"': 0x22, "'": 0x27, 'n': 10, 'r': 13, 't': 9, '0': 0}
HEXDIGITS = '0123456789abcdefABCDEF'


def unescape(s):
    """Decode the body of a quoted string/char (without the quotes)."""
    out = bytearray()
    i = 0
    n = len(s)
    while i < n:
        c = s[i]
        if c == '\\':
            i += 1
            if i >= n:
                raise AsmError('dangling backslash')
            e = s[i]
            if e == 'x':
                h = s[i + 1:i + 3]
                if len(h) != 2 or h[0] not in HEXDIGITS or h[1] not in HEXDIGITS:
                    raise AsmError('bad \\x escape')
                out.append(int(h, 16))
                i += 3
                continue
            if e not in ESCAPES:
                raise AsmError('unknown escape \\' + e)
            out.append(ESCAPES[e])
            i += 1
        else:
            o = ord(c)
            if o > 255:
                raise AsmError('non-byte character in literal')
            out.append(o)
            i += 1
    return bytes(out)


_TOK = re.compile(
    r"\s*(?:(0x[0-9a-fA-F]+|\d+)(w?)(?![\w])"      # number, optional w suffix
    r"|('(?:\\x[0-9a-fA-F]{2}|\\.|[^\\'])')"       # char literal
    r"|([A-Za-z_$][\w$]*)"                         # label / $argc
    r"|([-+&()]))")                                # operator


class _Expr:
    """Immediate expressions: numbers, Nw, chars, labels, + - & and parens."""

    def __init__(self, text, resolve, ws):
        self.resolve = resolve
        self.ws = ws
        self.toks = self._lex(text)
        self.i = 0
        self.text = text

    def _lex(self, text):
        toks = []
        pos = 0
        text = text.strip()
        if not text:
            raise AsmError('empty expression')
        while pos < len(text):
            m = _TOK.match(text, pos)
            if not m:
                raise AsmError('bad expression %r' % text)
            pos = m.end()
            if m.group(1) is not None:
                toks.append(('n', int(m.group(1), 0), bool(m.group(2))))
            elif m.group(3):
                b = unescape(m.group(3)[1:-1])
                if len(b) != 1:
                    raise AsmError('bad char literal %r' % text)
                toks.append(('n', b[0], False))
            elif m.group(4):
                toks.append(('l', m.group(4)))
            else:
                toks.append(('o', m.group(5)))
            while pos < len(text) and text[pos] in ' \t':
                pos += 1
        return toks

    def peek(self):
        return self.toks[self.i] if self.i < len(self.toks) else None

    def parse(self):
        v = self.p_and()
        if self.i != len(self.toks):
            raise AsmError('trailing tokens in %r' % self.text)
        return v

    def p_and(self):
        v = self.p_add()
        while self.peek() == ('o', '&'):
            self.i += 1
            v &= self.p_add()
        return v

    def p_add(self):
        v = self.p_un()
        while self.peek() in (('o', '+'), ('o', '-')):
            op = self.peek()[1]
            self.i += 1
            r = self.p_un()
            v = v + r if op == '+' else v - r
        return v

    def p_un(self):
        t = self.peek()
        if t is None:
            raise AsmError('unexpected end of expression %r' % self.text)
        if t == ('o', '-'):
            self.i += 1
            return -self.p_un()
        if t == ('o', '+'):
            self.i += 1
            return self.p_un()
        if t == ('o', '('):
            self.i += 1
            v = self.p_and()
            if self.peek() != ('o', ')'):
                raise AsmError('unbalanced parenthesis in %r' % self.text)
            self.i += 1
            return v
        self.i += 1
        if t[0] == 'n':
            return t[1] * (self.ws if t[2] else 1)
        if t[0] == 'l':
            return self.resolve(t[1])
        raise AsmError('bad token %r in %r' % (t, self.text))


def split_args(s):
    """Split an operand list on commas that are outside quotes."""
    out = []
    cur = ''
    q = None
    i = 0
    n = len(s)
    while i < n:
        c = s[i]
        if q:
            cur += c
            if c == '\\':
                if i + 1 >= n:
                    raise AsmError('dangling backslash')
                cur += s[i + 1]
                i += 1
            elif c == q:
                q = None
        elif c in '\'"':
            q = c
            cur += c
        elif c == ',':
            out.append(cur.strip())
            cur = ''
        else:
            cur += c
        i += 1
    if q:
        raise AsmError('unterminated quote in %r' % s)
    if cur.strip():
        out.append(cur.strip())
    elif out:
        raise AsmError('empty operand in %r' % s)
    return out


def strip_comment(line):
    q = None
    i = 0
    n = len(line)
    while i < n:
        c = line[i]
        if q:
            if c == '\\':
                i += 1
            elif c == q:
                q = None
        elif c in '\'"':
            q = c
        elif c == ';':
            return line[:i], line[i + 1:]
        i += 1
    return line, None


_LABEL = re.compile(r'([A-Za-z_]\w*):\s*(.*)$')

# number of operands per opcode
OPS = {
    'halt': 0, 'j': 1, 'yield': 1, 'sleep': 1, 'flag': 1, 'mov': 2,
    'heq': 2, 'hne': 2, 'hlt': 2, 'hle': 2, 'hgt': 2, 'hge': 2,
    'hltu': 2, 'hleu': 2, 'hgtu': 2, 'hgeu': 2,
    'add': 3, 'sub': 3, 'mul': 3, 'div': 3, 'mod': 3, 'and': 3, 'or': 3,
    'xor': 3, 'asl': 3, 'asr': 3,
    'lws': 2, 'lwc': 2, 'lbs': 2, 'lbc': 2,
    'lwso': 3, 'lwco': 3, 'lbso': 3, 'lbco': 3,
    'sws': 2, 'sbs': 2, 'swso': 3, 'sbso': 3,
}
# opcodes whose first operand is a destination and must be a state word [x]
DEST_OPS = {'mov', 'add', 'sub', 'mul', 'div', 'mod', 'and', 'or', 'xor',
            'asl', 'asr', 'lws', 'lwc', 'lbs', 'lbc', 'lwso', 'lwco', 'lbso',
            'lbco'}


class Program:
    """Result of assembling: memory images, decoded code, symbol tables."""
    __slots__ = ('ws', 'state', 'const', 'code', 'labels', 'code_labels',
                 'stmt_at', 'func_at', 'src', 'argv_spec', 'args',
                 'state_objs', 'const_objs')


class Assembler:
    def __init__(self, lines, args=()):
        self.args = [a if isinstance(a, (bytes, str)) else str(a) for a in args]
        self.ws = 2
        self.labels = {}
        self.sections = {'state': bytearray(), 'const': bytearray()}
        self.raw_code = []
        self.fix = []
        self.argv = None
        self.argvals = None
        self.code_labels = {}
        self.stmt_at = {}
        self.func_at = {}
        self.src = []
        self.objs = {'state': [], 'const': []}
        sec = None
        cur_stmt = None
        cur_func = None
        seen_format_word = False
        for raw in lines:
            line = raw.decode('latin-1') if isinstance(raw, (bytes, bytearray)) else raw
            if '\n' in line or '\r' in line:
                raise AsmError('line break inside a line')
            line, comment = strip_comment(line)
            line = line.strip()
            if comment is not None:
                c = comment.strip()
                if c.startswith('Statement @'):
                    cur_stmt = c
                elif c.startswith('Function '):
                    cur_func = c
                    cur_stmt = None
            if not line:
                continue
            if line.startswith('%'):
                p = line.split()
                if p[0] == '%argv':
                    if self.argv is not None:
                        raise AsmError('duplicate %argv')
                    self.argv = p[1:]
                    self.bind_args()
                elif p[0] == '%format':
                    if len(p) != 3:
                        raise AsmError('bad %format')
                    if p[1] == 'word':
                        if self.sections['state'] or self.sections['const'] or self.raw_code:
                            raise AsmError('%format word after data')
                        self.ws = int(p[2])
                        if self.ws < 1:
                            raise AsmError('bad word size')
                        seen_format_word = True
                    elif p[1] == 'output':
                        if p[2] not in ('byte', 'signed', 'unsigned'):
                            raise AsmError('bad output format')
                    else:
                        raise AsmError('unknown %format ' + p[1])
                elif p[0] == '%section':
                    if len(p) != 2 or p[1] not in ('state', 'const', 'code'):
                        raise AsmError('bad %section')
                    sec = p[1]
                else:
                    raise AsmError('unknown directive ' + p[0])
                continue
            if sec is None:
                raise AsmError('content outside of a section')
            m = _LABEL.match(line)
            while m:
                name = m.group(1)
                if name in self.labels:
                    raise AsmError('duplicate label ' + name)
                if sec == 'code':
                    off = len(self.raw_code)
                    self.code_labels.setdefault(off, []).append(name)
                else:
                    off = len(self.sections[sec])
                    self.objs[sec].append((name, off))
                self.labels[name] = (sec, off)
                line = m.group(2)
                m = _LABEL.match(line)
            if not line:
                continue
            op, _, rest = line.partition(' ')
            if sec == 'code':
                if op not in OPS:
                    raise AsmError('unknown instruction ' + op)
                a = split_args(rest)
                if len(a) != OPS[op]:
                    raise AsmError('wrong operand count: ' + line)
                pc = len(self.raw_code)
                self.raw_code.append((op, a))
                self.stmt_at[pc] = cur_stmt
                self.func_at[pc] = cur_func
                self.src.append(line)
            else:
                self.data(sec, op, rest)
        if self.argv is None and self.args:
            raise AsmError('arguments given but program takes none')
        for sec, off, n, text in self.fix:
            v = self.expr(text) & ((1 << (8 * n)) - 1)
            self.sections[sec][off:off + n] = v.to_bytes(n, 'little')

    # -- helpers ---------------------------------------------------------
    def expr(self, text):
        return _Expr(text, self.resolve, self.ws).parse()

    def resolve(self, name):
        if name == '$argc':
            return len(self.args)
        if name.startswith('$'):
            raise AsmError('unknown special ' + name)
        if name not in self.labels:
            raise AsmError('undefined label ' + name)
        return self.labels[name][1]

    def bind_args(self):
        before = []
        var = None
        after = []
        names = set()
        for s in self.argv:
            m = re.fullmatch(r'\[<(\w+)>\.\.\.\]', s)
            if m:
                if var is not None:
                    raise AsmError('two variadic arguments')
                var = m.group(1)
                name = var
            else:
                m = re.fullmatch(r'<(\w+)>', s)
                if not m:
                    raise AsmError('bad %argv spec ' + s)
                name = m.group(1)
                (before if var is None else after).append(name)
            if name in names:
                raise AsmError('duplicate argument name ' + name)
            names.add(name)
        n = len(self.args)
        if n < len(before) + len(after) or (var is None and n != len(before)):
            raise AsmError('wrong number of arguments')
        self.argvals = {}
        for k, name in enumerate(before):
            self.argvals[name] = self.args[k]
        for k, name in enumerate(reversed(after)):
            self.argvals[name] = self.args[n - 1 - k]
        if var is not None:
            self.argvals[var] = list(self.args[len(before): n - len(after)])

    @staticmethod
    def parse_int_arg(v):
        if isinstance(v, bytes):
            v = v.decode('utf-8', 'surrogateescape')
        if not re.fullmatch(r'[-+]?\d+', v.strip()):
            raise AsmError('non-numeric argument %r' % v)
        return int(v)

    def data(self, sec, op, rest):
        buf = self.sections[sec]
        if op in ('.word', '.byte'):
            n = self.ws if op == '.word' else 1
            items = split_args(rest)
            if not items:
                raise AsmError(op + ' without items')
            for a in items:
                self.fix.append((sec, len(buf), n, a))
                buf += bytes(n)
        elif op == '.zero':
            size = self.expr(rest)
            if size < 0:
                raise AsmError('negative .zero')
            buf += bytes(size)
        elif op == '.ascii':
            r = rest.strip()
            if len(r) < 2 or r[0] != '"':
                raise AsmError('bad .ascii')
            # find the closing quote honouring escapes; it must end the line
            i = 1
            while i < len(r):
                if r[i] == '\\':
                    i += 2
                    continue
                if r[i] == '"':
                    break
                i += 1
            if i >= len(r):
                raise AsmError('unterminated string')
            if i != len(r) - 1:
                raise AsmError('garbage after string')
            buf += unescape(r[1:i])
        elif op == '.arg':
            if self.argvals is None:
                raise AsmError('.arg without %argv')
            p = rest.split()
            if len(p) < 2:
                raise AsmError('bad .arg')
            name, fmt, extra = p[0], p[1], p[2:]
            if name not in self.argvals:
                raise AsmError('unknown argument ' + name)
            val = self.argvals[name]
            is_list = isinstance(val, list)
            vals = val if is_list else [val]
            if fmt in ('word', 'byte'):
                if extra:
                    raise AsmError('bad .arg params')
                n = self.ws if fmt == 'word' else 1
                for v in vals:
                    buf += (self.parse_int_arg(v) & ((1 << 8 * n) - 1)).to_bytes(n, 'little')
            elif fmt == 'asciip':
                enc = [v.encode('utf-8', 'surrogateescape') if isinstance(v, str) else v for v in vals]
                lim = 1 << (8 * self.ws)
                if extra == ['array']:
                    base = len(buf) + self.ws * len(enc)
                    blob = bytearray()
                    ptrs = []
                    for e in enc:
                        ptrs.append(base + len(blob))
                        if len(e) >= lim:
                            raise AsmError('argument too long')
                        blob += len(e).to_bytes(self.ws, 'little') + e
                    for q in ptrs:
                        if q >= lim:
                            raise AsmError('argument data too large')
                        buf += q.to_bytes(self.ws, 'little')
                    buf += blob
                elif not extra:
                    if is_list:
                        raise AsmError('variadic asciip without array')
                    if len(enc[0]) >= lim:
                        raise AsmError('argument too long')
                    buf += len(enc[0]).to_bytes(self.ws, 'little') + enc[0]
                else:
                    raise AsmError('bad .arg params')
            else:
                raise AsmError('unknown .arg format ' + fmt)
        else:
            raise AsmError('unknown data directive ' + op)

    # -- operand decoding --------------------------------------------------
    def operand(self, text):
        t = text.strip()
        if t.startswith('['):
            if not t.endswith(']'):
                raise AsmError('bad operand ' + t)
            return ('s', self.expr(t[1:-1]))
        if t.startswith('{'):
            if not t.endswith('}'):
                raise AsmError('bad operand ' + t)
            return ('c', self.expr(t[1:-1]))
        return ('i', self.expr(t) & ((1 << (8 * self.ws)) - 1))

    def finish(self):
        code = []
        nstate = len(self.sections['state'])
        nconst = len(self.sections['const'])
        for op, a in self.raw_code:
            if op == 'flag':
                name = a[0].strip()
                if not re.fullmatch(r'\w+', name):
                    raise AsmError('bad flag name ' + name)
                code.append((op, (('f', name),)))
                continue
            ops = tuple(self.operand(x) for x in a)
            for k, (kind, v) in enumerate(ops):
                if kind == 's' and not (0 <= v <= nstate - self.ws):
                    raise AsmError('state operand out of range: %s %s' % (op, a))
                if kind == 'c' and not (0 <= v <= nconst - self.ws):
                    raise AsmError('const operand out of range: %s %s' % (op, a))
            if op in DEST_OPS and ops[0][0] != 's':
                raise AsmError('destination must be a state word: %s %s' % (op, a))
            code.append((op, ops))
        p = Program()
        p.ws = self.ws
        p.state = bytes(self.sections['state'])
        p.const = bytes(self.sections['const'])
        p.code = code
        p.labels = dict(self.labels)
        p.code_labels = dict(self.code_labels)
        p.stmt_at = self.stmt_at
        p.func_at = self.func_at
        p.src = self.src
        p.argv_spec = self.argv
        p.args = list(self.args)
        p.state_objs = list(self.objs['state'])
        p.const_objs = list(self.objs['const'])
        return p


def assemble(lines, args=()):
    """lines: iterable of bytes/str lines (no terminators) -> Program."""
    return Assembler(lines, args).finish()


def synth_args(lines):
    """Synthesize an argument vector matching a program's %argv line (C10)."""
    for raw in lines:
        line = raw.decode('latin-1') if isinstance(raw, (bytes, bytearray)) else raw
        if line.startswith('%argv'):
            out = []
            for s in line.split()[1:]:
                if s.startswith('['):
                    out += ['1', '2']
                else:
                    out.append('3')
            return out
    return []
