"""Replay monitors over the committed timeline (DESIGN.md 2.1, C04, C08, C16)."""
from .vm import NullMonitor


class Layout:
    """Address map of a hidc-emitted program."""

    def __init__(self, prog):
        self.prog = prog
        ws = prog.ws
        lab = prog.labels
        self.ws = ws
        self.ap = lab['ap'][1]
        self.fp = lab['fp'][1]
        self.regs_end = lab['stack_start'][1]
        self.stack_start = lab['stack_start'][1]
        self.stack_end = lab['stack_end'][1]
        self.nstate = len(prog.state)
        # global objects after the stack: (start, end, name)
        objs = sorted((off, name) for name, off in prog.state_objs if off >= self.stack_end and name != 'stack_end')
        self.globals = []
        for i, (off, name) in enumerate(objs):
            end = objs[i + 1][0] if i + 1 < len(objs) else self.nstate
            self.globals.append((off, end, name))
        self.protected = {name: (off, end) for off, end, name in self.globals if name in ('try_fp', 'defeat')}
        self.write_int = lab.get('write_int', (None, None))[1]
        self.stdlib_start = lab.get('all_is_win', (None, len(prog.code)))[1]
        self.code_targets = set(prog.code_labels)
        self.reg_addrs = {lab[n][1] for n in ('ap', 'fp', 'r0', 'r1', 'r2')}

    def global_object(self, addr):
        empty = None
        for start, end, name in self.globals:
            if start <= addr < end:
                return start, end, name
            if start == end == addr:
                empty = (start, end, name)      # zero-length object sharing its address with the next one
        return empty


class MemMonitor(NullMonitor):
    """C04: every load/store/jump on the committed path stays inside the storage it is entitled to."""

    def __init__(self, prog):
        self.L = Layout(prog)
        self.prog = prog
        self.violations = []
        self.extents = []           # live stack array extents (start, end), innermost last
        self.min_gap = None         # min over frame stores of (address - ap)
        self.min_gap_arrays = 0
        self.frame_stores = 0
        self.elem_accesses = 0

    def begin(self, vm, mem):
        super().begin(vm, mem)
        self.ws = vm.ws

    def word(self, addr):
        return int.from_bytes(self.mem[addr:addr + self.ws], 'little')

    def bad(self, pc, what):
        if len(self.violations) < 5:
            self.violations.append((pc, what, self.prog.src[pc] if pc < len(self.prog.src) else '?',
                                    self.prog.stmt_at.get(pc), self.prog.func_at.get(pc)))

    # register / direct destination writes
    def on_alu(self, pc, op, dest, a, result):
        L = self.L
        if dest == L.ap:
            old = self.word(L.ap)
            new = result
            if new > old:
                self.extents.append((old, new))
            elif new < old:
                while self.extents and self.extents[-1][0] >= new:
                    self.extents.pop()
                if self.extents and self.extents[-1][1] > new:
                    # an extent cut in the middle: released early / misaligned release
                    self.bad(pc, 'ap lowered to %d into the middle of array extent %r' % (new, self.extents[-1]))
                    self.extents[-1] = (self.extents[-1][0], new)
            if not (L.stack_start <= new <= L.stack_end):
                self.bad(pc, 'ap set to %d outside the stack [%d,%d]' % (new, L.stack_start, L.stack_end))
            return
        if dest in L.reg_addrs:
            return
        g = L.global_object(dest)
        if g is not None and g[0] == dest:
            return
        self.bad(pc, 'direct destination %d is neither a register nor the start of a global object' % dest)

    def in_extent(self, base):
        for s, e in reversed(self.extents):
            if s <= base < e:
                return (s, e)
        return None

    def entitled_element(self, pc, addr, size, basev, kind):
        """Element access through an array origin / walking pointer."""
        L = self.L
        self.elem_accesses += 1
        ap = self.word(L.ap)
        fp = self.word(L.fp)
        in_write_int = L.write_int is not None and pc >= L.write_int
        in_stdlib = pc >= L.stdlib_start
        if L.stack_start <= addr < L.stack_end:
            if addr + size <= ap:
                ext = self.in_extent(basev) if basev is not None else None
                if ext is not None and not (ext[0] <= addr and addr + size <= ext[1]):
                    self.bad(pc, '%s of %d bytes at %d through array origin %d leaves that array\'s extent %r' % (kind, size, addr, basev, ext))
                elif ext is None and self.in_extent(addr) is None:
                    self.bad(pc, '%s at %d below ap=%d but inside no live array extent %r' % (kind, addr, ap, self.extents[-3:]))
                return
            # frame region: only the library may walk it through a register (write_int's digit buffer)
            if in_stdlib and ap <= addr and addr + size <= fp:
                if kind == 'store' and not in_write_int:
                    self.bad(pc, 'library store into the frame region at %d outside write_int' % addr)
                return
            self.bad(pc, '%s at %d through a non-fp base lands in the frame region (ap=%d fp=%d)' % (kind, addr, ap, fp))
            return
        g = L.global_object(addr)
        if g is not None:
            start, end, name = g
            if name in ('try_fp', 'defeat'):
                self.bad(pc, '%s at %d touches the saved try context (%s)' % (kind, addr, name))
            elif addr + size > end:
                self.bad(pc, '%s at %d (+%d) crosses the end of global object %s [%d,%d)' % (kind, addr, size, name, start, end))
            elif basev is not None:
                gb = L.global_object(basev)
                if gb is not None and gb[2] != name:
                    self.bad(pc, '%s at %d through origin of global %s lands in global %s' % (kind, addr, gb[2], name))
            return
        self.bad(pc, '%s at %d is outside every array and global (registers end at %d)' % (kind, addr, L.regs_end))

    def frame_access(self, pc, addr, size, kind):
        L = self.L
        ap = self.word(L.ap)
        fp = self.word(L.fp)
        if not (ap <= addr and addr + size <= fp):
            self.bad(pc, 'frame %s at [%d,%d) outside [ap=%d, fp=%d)' % (kind, addr, addr + size, ap, fp))
        if kind == 'store':
            self.frame_stores += 1
            gap = addr - ap
            if self.min_gap is None or gap < self.min_gap:
                self.min_gap = gap
                self.min_gap_arrays = len(self.extents)

    def on_store(self, pc, addr, size, base, val, off=None):
        L = self.L
        if base == ('s', L.fp):
            self.frame_access(pc, addr, size, 'store')
        elif base == ('s', L.ap):
            ap = self.word(L.ap)
            top = self.extents[-1] if self.extents else None
            if top is None or not (top[0] <= addr and addr + size <= top[1]) or top[1] != ap:
                self.bad(pc, 'array-literal store at %d outside the newest extent %r (ap=%d)' % (addr, top, ap))
        else:
            basev = self.opval(base)
            if L.write_int is not None and pc >= L.write_int:
                self.frame_access(pc, addr, size, 'store')
            else:
                self.entitled_element(pc, addr, size, basev, 'store')

    def opval(self, o):
        k, v = o
        if k == 'i':
            return v
        if k == 's':
            return self.word(v)
        return int.from_bytes(self.vm.const[v:v + self.ws], 'little')

    def on_load(self, pc, sec, addr, size, base, off):
        L = self.L
        if sec == 'c':
            if addr + size > len(self.vm.const):
                self.bad(pc, 'const load at %d outside the const section' % addr)
                return False
            return True
        if addr + size > L.nstate:
            self.bad(pc, 'state load at %d outside the state section' % addr)
            return False
        if base == ('s', L.fp):
            self.frame_access(pc, addr, size, 'load')
        elif base == ('s', L.ap):
            self.entitled_element(pc, addr, size, None, 'load')
        elif base[0] == 'i' and off is None:
            # direct byte load of a global scalar (lbs [r], label)
            g = L.global_object(addr)
            if g is None and addr not in L.reg_addrs:
                self.bad(pc, 'direct load at %d: not a global object' % addr)
        else:
            self.entitled_element(pc, addr, size, self.opval(base), 'load')
        return True

    def on_jump(self, pc, target, taken, operand):
        if taken and target not in self.L.code_targets:
            self.bad(pc, 'jump to %d, which is not a label of the code section' % target)

    def on_fault(self, pc, what):
        self.bad(pc, 'machine fault on the committed path: ' + what)

    def on_pc_escape(self, pc):
        self.bad(pc, 'program counter left the code section')
