"""Replay monitors over the committed timeline (DESIGN.md 2.1, C04, C08, C16)."""
from .vm import NullMonitor


class Layout:
    """Address map of a hidc-emitted program."""

    def __init__(self, prog):
        self.prog = prog
        ws = prog.ws
        lab = prog.labels
        self.ws = ws
        self.ap = lab['ap'][1]
        self.fp = lab['fp'][1]
        self.regs_end = lab['stack_start'][1]
        self.stack_start = lab['stack_start'][1]
        self.stack_end = lab['stack_end'][1]
        self.nstate = len(prog.state)
        # global objects after the stack: (start, end, name)
        objs = sorted((off, name) for name, off in prog.state_objs if off >= self.stack_end and name != 'stack_end')
        self.globals = []
        for i, (off, name) in enumerate(objs):
            end = objs[i + 1][0] if i + 1 < len(objs) else self.nstate
            self.globals.append((off, end, name))
        self.protected = {name: (off, end) for off, end, name in self.globals if name in ('try_fp', 'defeat')}
        self.write_int = lab.get('write_int', (None, None))[1]
        self.stdlib_start = lab.get('all_is_win', (None, len(prog.code)))[1]
        self.code_targets = set(prog.code_labels)
        self.reg_addrs = {lab[n][1] for n in ('ap', 'fp', 'r0', 'r1', 'r2')}

    def global_object(self, addr):
        empty = None
        for start, end, name in self.globals:
            if start <= addr < end:
                return start, end, name
            if start == end == addr:
                empty = (start, end, name)      # zero-length object sharing its address with the next one
        return empty


class MemMonitor(NullMonitor):
    """C04: every load/store/jump on the committed path stays inside the storage it is entitled to."""

    def __init__(self, prog):
        self.L = Layout(prog)
        self.prog = prog
        self.violations = []
        self.extents = []           # live stack array extents (start, end), innermost last
        self.min_gap = None         # min over frame stores of (address - ap)
        self.min_gap_arrays = 0
        self.frame_stores = 0
        self.elem_accesses = 0

    def begin(self, vm, mem):
        super().begin(vm, mem)
        self.ws = vm.ws

    def word(self, addr):
        return int.from_bytes(self.mem[addr:addr + self.ws], 'little')

    def bad(self, pc, what):
        if len(self.violations) < 5:
            self.violations.append((pc, what, self.prog.src[pc] if pc < len(self.prog.src) else '?',
                                    self.prog.stmt_at.get(pc), self.prog.func_at.get(pc)))

    # register / direct destination writes
    def on_alu(self, pc, op, dest, a, result):
        L = self.L
        if dest == L.ap:
            old = self.word(L.ap)
            new = result
            if new > old:
                self.extents.append((old, new))
            elif new < old:
                while self.extents and self.extents[-1][0] >= new:
                    self.extents.pop()
                if self.extents and self.extents[-1][1] > new:
                    # an extent cut in the middle: released early / misaligned release
                    self.bad(pc, 'ap lowered to %d into the middle of array extent %r' % (new, self.extents[-1]))
                    self.extents[-1] = (self.extents[-1][0], new)
            if not (L.stack_start <= new <= L.stack_end):
                self.bad(pc, 'ap set to %d outside the stack [%d,%d]' % (new, L.stack_start, L.stack_end))
            return
        if dest in L.reg_addrs:
            return
        g = L.global_object(dest)
        if g is not None and g[0] == dest:
            return
        self.bad(pc, 'direct destination %d is neither a register nor the start of a global object' % dest)

    def in_extent(self, base):
        for s, e in reversed(self.extents):
            if s <= base < e:
                return (s, e)
        return None

    def entitled_element(self, pc, addr, size, basev, kind):
        """Element access through an array origin / walking pointer."""
        L = self.L
        self.elem_accesses += 1
        ap = self.word(L.ap)
        fp = self.word(L.fp)
        in_write_int = L.write_int is not None and pc >= L.write_int
        in_stdlib = pc >= L.stdlib_start
        if L.stack_start <= addr < L.stack_end:
            if addr + size <= ap:
                ext = self.in_extent(basev) if basev is not None else None
                if ext is not None and not (ext[0] <= addr and addr + size <= ext[1]):
                    self.bad(pc, '%s of %d bytes at %d through array origin %d leaves that array\'s extent %r' % (kind, size, addr, basev, ext))
                elif ext is None and self.in_extent(addr) is None:
                    self.bad(pc, '%s at %d below ap=%d but inside no live array extent %r' % (kind, addr, ap, self.extents[-3:]))
                return
            # frame region: only the library may walk it through a register (write_int's digit buffer)
            if in_stdlib and ap <= addr and addr + size <= fp:
                if kind == 'store' and not in_write_int:
                    self.bad(pc, 'library store into the frame region at %d outside write_int' % addr)
                return
            self.bad(pc, '%s at %d through a non-fp base lands in the frame region (ap=%d fp=%d)' % (kind, addr, ap, fp))
            return
        g = L.global_object(addr)
        if g is not None:
            start, end, name = g
            if name in ('try_fp', 'defeat'):
                self.bad(pc, '%s at %d touches the saved try context (%s)' % (kind, addr, name))
            elif addr + size > end:
                self.bad(pc, '%s at %d (+%d) crosses the end of global object %s [%d,%d)' % (kind, addr, size, name, start, end))
            elif basev is not None:
                gb = L.global_object(basev)
                if gb is not None and gb[2] != name:
                    self.bad(pc, '%s at %d through origin of global %s lands in global %s' % (kind, addr, gb[2], name))
            return
        self.bad(pc, '%s at %d is outside every array and global (registers end at %d)' % (kind, addr, L.regs_end))

    def frame_access(self, pc, addr, size, kind):
        L = self.L
        ap = self.word(L.ap)
        fp = self.word(L.fp)
        if not (ap <= addr and addr + size <= fp):
            self.bad(pc, 'frame %s at [%d,%d) outside [ap=%d, fp=%d)' % (kind, addr, addr + size, ap, fp))
        if kind == 'store':
            self.frame_stores += 1
            gap = addr - ap
            if self.min_gap is None or gap < self.min_gap:
                self.min_gap = gap
                self.min_gap_arrays = len(self.extents)

    def on_store(self, pc, addr, size, base, val, off=None):
        L = self.L
        if base == ('s', L.fp):
            self.frame_access(pc, addr, size, 'store')
        elif base == ('s', L.ap):
            ap = self.word(L.ap)
            top = self.extents[-1] if self.extents else None
            if top is None or not (top[0] <= addr and addr + size <= top[1]) or top[1] != ap:
                self.bad(pc, 'array-literal store at %d outside the newest extent %r (ap=%d)' % (addr, top, ap))
        else:
            basev = self.opval(base)
            if L.write_int is not None and pc >= L.write_int:
                self.frame_access(pc, addr, size, 'store')
            else:
                self.entitled_element(pc, addr, size, basev, 'store')

    def opval(self, o):
        k, v = o
        if k == 'i':
            return v
        if k == 's':
            return self.word(v)
        return int.from_bytes(self.vm.const[v:v + self.ws], 'little')

    def on_load(self, pc, sec, addr, size, base, off):
        L = self.L
        if sec == 'c':
            if addr + size > len(self.vm.const):
                self.bad(pc, 'const load at %d outside the const section' % addr)
                return False
            return True
        if addr + size > L.nstate:
            self.bad(pc, 'state load at %d outside the state section' % addr)
            return False
        if base == ('s', L.fp):
            self.frame_access(pc, addr, size, 'load')
        elif base == ('s', L.ap):
            self.entitled_element(pc, addr, size, None, 'load')
        elif base[0] == 'i' and off is None:
            # direct byte load of a global scalar (lbs [r], label)
            g = L.global_object(addr)
            if g is None and addr not in L.reg_addrs:
                self.bad(pc, 'direct load at %d: not a global object' % addr)
        else:
            self.entitled_element(pc, addr, size, self.opval(base), 'load')
        return True

    def on_jump(self, pc, target, taken, operand):
        if taken and target not in self.L.code_targets:
            self.bad(pc, 'jump to %d, which is not a label of the code section' % target)

    def on_fault(self, pc, what):
        self.bad(pc, 'machine fault on the committed path: ' + what)

    def on_pc_escape(self, pc):
        self.bad(pc, 'program counter left the code section')


class FrameMonitor(NullMonitor):
    """C08 / C16: (fp, ap) discipline at calls, loop instances and try/stop; no fall-through between functions."""

    def __init__(self, prog):
        self.L = Layout(prog)
        self.prog = prog
        self.violations = []
        self.calls = []          # (expected return pc, fp, ap)
        self.loops = []          # (N, fp, ap, call depth)
        self.tries = []          # (N, fp, ap, call depth, loop depth)
        self.pending_handler = None
        self.prev_pc = None
        self.jumped = False
        self.kind = {}
        self.func_entry = {}
        self.func_of_pc = {}
        cur = None
        for pc in range(len(prog.code)):
            for n in prog.code_labels.get(pc, ()):
                base, _, num = n.rpartition('_')
                if base in ('loop', 'continue', 'break', 'begin_try', 'try_handler', 'end_try', 'end_call') and num.isdigit():
                    self.kind.setdefault(pc, []).append((base, int(num)))
                if n.startswith('func_') or n in ('write_const_byte_array', 'write_string', 'write_state_byte_array', 'write_bool',
                                                  'write_int', 'all_is_win', 'all_is_broken', 'stack_overflow', 'division_by_zero',
                                                  'out_of_bounds', 'nonlocal_preempt'):
                    self.func_entry[pc] = n
                    cur = n
            self.func_of_pc[pc] = cur
        # a loop / try label that shares its address with a function entry labels code the compiler dropped as unreachable
        # (e.g. what follows a try whose body and handler both leave): arriving there is a call of that function, not the
        # end of the statement.  Reachable ends are always followed by at least the enclosing function's return sequence.
        for pc in list(self.kind):
            if pc in self.func_entry:
                self.kind[pc] = [k for k in self.kind[pc] if k[0] == 'end_call']
        self.stats = {'calls_checked': 0, 'loop_edges_checked': 0, 'try_checked': 0, 'nonlocal_releases': 0}
        self.release_stmt = None
        self.ap_lowered_in = set()
        self.fallthrough = None

    def begin(self, vm, mem):
        super().begin(vm, mem)
        self.ws = vm.ws

    def word(self, addr):
        return int.from_bytes(self.mem[addr:addr + self.ws], 'little')

    def bad(self, pc, what):
        if len(self.violations) < 5:
            self.violations.append((pc, what, self.prog.src[pc] if pc < len(self.prog.src) else '?', self.prog.stmt_at.get(pc), self.prog.func_at.get(pc)))

    def regs(self):
        return self.word(self.L.fp), self.word(self.L.ap)

    def on_alu(self, pc, op, dest, a, result):
        if dest == self.L.ap and result < self.word(self.L.ap):
            st_ = self.prog.stmt_at.get(pc) or ''
            if st_.endswith(('BreakStatement', 'ContinueStatement', 'ReturnStatement')):
                self.stats['nonlocal_releases'] += 1

    def on_instr(self, pc, op, a):
        arrived_by_jump = self.jumped
        self.jumped = False
        prev = self.prev_pc
        self.prev_pc = pc
        # C16: sequential flow from one function's code into another function's first instruction
        if not arrived_by_jump and prev is not None and pc in self.func_entry and self.func_of_pc.get(prev) != self.func_entry[pc]:
            self.bad(pc, 'control ran off the end of %s into %s' % (self.func_of_pc.get(prev), self.func_entry[pc]))
        if self.pending_handler is not None:
            n, hpc = self.pending_handler
            if self.prog.stmt_at.get(pc) != self.prog.stmt_at.get(hpc) or any(k[0] == 'end_try' for k in self.kind.get(pc, ())):
                self.check_try(pc, n, 'first statement of the stop handler')
                self.pending_handler = None
        for base, n in self.kind.get(pc, ()):
            fp, ap = self.regs()
            if base == 'end_call':
                if self.calls and self.calls[-1][0] == pc:
                    _, cfp, cap = self.calls.pop()
                    self.stats['calls_checked'] += 1
                    if (fp, ap) != (cfp, cap):
                        self.bad(pc, 'call returned with (fp, ap) = (%d, %d), at the call they were (%d, %d)' % (fp, ap, cfp, cap))
                    depth = len(self.calls)
                    while self.loops and self.loops[-1][3] > depth:
                        self.loops.pop()
            elif base == 'loop':
                if not arrived_by_jump:
                    self.loops.append((n, fp, ap, len(self.calls)))
                else:
                    self.check_loop(pc, n, fp, ap, 'back edge', pop=False)
            elif base == 'continue':
                self.check_loop(pc, n, fp, ap, 'continue point', pop=False)
            elif base == 'break':
                self.check_loop(pc, n, fp, ap, 'loop exit', pop=True)
            elif base == 'begin_try':
                self.tries.append((n, fp, ap, len(self.calls), len(self.loops)))
            elif base == 'try_handler':
                # only stop handlers are preceded by a begin_try label
                for k in range(len(self.tries) - 1, -1, -1):
                    if self.tries[k][0] == n:
                        del self.tries[k + 1:]
                        del self.calls[self.tries[k][3]:]
                        del self.loops[self.tries[k][4]:]
                        self.pending_handler = (n, pc)
                        break
            elif base == 'end_try':
                if self.tries and self.tries[-1][0] == n:
                    if self.pending_handler is None:
                        self.check_try(pc, n, 'end of the try statement')
                    self.tries.pop()

    def check_loop(self, pc, n, fp, ap, what, pop):
        for k in range(len(self.loops) - 1, -1, -1):
            if self.loops[k][0] == n and self.loops[k][3] == len(self.calls):
                _, lfp, lap, _ = self.loops[k]
                self.stats['loop_edges_checked'] += 1
                if (fp, ap) != (lfp, lap):
                    self.bad(pc, '%s of loop %d reached with (fp, ap) = (%d, %d), the loop was entered with (%d, %d)' % (what, n, fp, ap, lfp, lap))
                if pop:
                    del self.loops[k:]
                else:
                    del self.loops[k + 1:]
                return

    def check_try(self, pc, n, what):
        if self.tries and self.tries[-1][0] == n:
            _, tfp, tap, _, _ = self.tries[-1]
            fp, ap = self.regs()
            self.stats['try_checked'] += 1
            if (fp, ap) != (tfp, tap):
                self.bad(pc, '%s %d reached with (fp, ap) = (%d, %d), the try was entered with (%d, %d)' % (what, n, fp, ap, tfp, tap))

    def on_jump(self, pc, target, taken, operand):
        if taken:
            self.jumped = True
            if target in self.func_entry and operand[0] == 'i' and self.func_entry[target].startswith(('func_', 'write_')):
                fp, ap = self.regs()
                self.calls.append((pc + 2, fp, ap))
