from .asm import assemble, AsmError, Program, synth_args
from .vm import VM, Result, NullMonitor, run_lines, HALT, FOREVER, BUDGET
