"""The verification Sphinx VM (DESIGN.md 2.1).

run()    : depth-first search over Turing jumps with an undo log; decides the
           committed timeline (events + the taken/not-taken decision of every
           jump on it) and the outcome HALT / FOREVER / BUDGET.
replay() : linear re-execution of the committed timeline from its decision
           list, calling monitor hooks for every instruction and memory access
           (monitors never see speculative paths).
"""
import hashlib

from .asm import assemble, AsmError, Program

HALT, FOREVER, BUDGET = 'halt', 'forever', 'budget'


class MachineFault(Exception):
    """Undefined machine behaviour (div by zero, address outside section)."""


def _signed(v, ws):
    return v - (1 << (8 * ws)) if v >> (8 * ws - 1) else v


class Result:
    __slots__ = ('outcome', 'events', 'decisions', 'steps', 'averted',
                 'faults', 'path_len', 'program', 'final_pc', 'fault_committed')

    @property
    def output(self):
        return bytes(e[1] for e in self.events if e[0] == 'out')

    @property
    def flags(self):
        return [e[1] for e in self.events if e[0] == 'flag']

    def trimmed_events(self):
        """Events without the terminal sleep loop's sleeps (tnt: sleep 0x7f7f)."""
        ev = list(self.events)
        while ev and ev[-1] == ('sleep', 0x7f7f):
            ev.pop()
        return ev


class VM:
    def __init__(self, program):
        assert isinstance(program, Program)
        self.p = program
        self.ws = program.ws
        self.bits = 8 * self.ws
        self.mask = (1 << self.bits) - 1
        self.sign = 1 << (self.bits - 1)
        self.mem = bytearray(program.state)
        self.const = program.const
        self.code = program.code

    # ------------------------------------------------------------------
    # single instruction semantics (shared by run and replay)
    # returns: None (fall through) | 'halt'
    # memory writes go through self._store so that run() can log them
    # ------------------------------------------------------------------
    def _val(self, o):
        k, v = o
        if k == 'i':
            return v
        ws = self.ws
        if k == 's':
            return int.from_bytes(self.mem[v:v + ws], 'little')
        return int.from_bytes(self.const[v:v + ws], 'little')

    def _s(self, v):
        return v - self.mask - 1 if v & self.sign else v

    def run(self, budget=2_000_000):
        code = self.code
        ncode = len(code)
        mem = self.mem
        const = self.const
        ws = self.ws
        mask = self.mask
        sign = self.sign
        bits = self.bits
        full = mask + 1
        nmem = len(mem)
        nconst = len(const)
        undo = []
        events = []
        decisions = []
        choices = []
        visited = {}
        vlist = []
        steps = 0
        averted = 0
        faults = []
        pc = 0
        from_bytes = int.from_bytes
        blake = hashlib.blake2b

        res = Result()
        res.program = self.p
        res.fault_committed = None

        def finish(outcome):
            res.outcome = outcome
            res.events = events
            res.decisions = decisions
            res.steps = steps
            res.averted = averted
            res.faults = faults
            res.final_pc = pc
            return res

        while True:
            steps += 1
            if steps > budget:
                return finish(BUDGET)
            halted = False
            if 0 <= pc < ncode:
                op, a = code[pc]
                if op == 'j':
                    k, v = a[0]
                    if k == 's':
                        v = from_bytes(mem[v:v + ws], 'little')
                    elif k == 'c':
                        v = from_bytes(const[v:v + ws], 'little')
                    choices.append((v, len(undo), len(events), len(vlist), len(decisions)))
                    decisions.append(False)
                    pc += 1
                    continue
                # fetch operand values
                n = len(a)
                if op == 'halt':
                    halted = True
                elif op == 'flag':
                    events.append(('flag', a[0][1]))
                else:
                    k, v = a[0]
                    if k == 'i':
                        x = v
                    elif k == 's':
                        x = from_bytes(mem[v:v + ws], 'little')
                        d = v
                    else:
                        x = from_bytes(const[v:v + ws], 'little')
                    if n > 1:
                        k, v = a[1]
                        y = v if k == 'i' else (
                            from_bytes(mem[v:v + ws], 'little') if k == 's'
                            else from_bytes(const[v:v + ws], 'little'))
                        if n > 2:
                            k, v = a[2]
                            z = v if k == 'i' else (
                                from_bytes(mem[v:v + ws], 'little') if k == 's'
                                else from_bytes(const[v:v + ws], 'little'))
                    c0 = op[0]
                    if c0 == 'h':
                        if op == 'heq':
                            halted = x == y
                        elif op == 'hne':
                            halted = x != y
                        elif op[-1] == 'u':
                            if op == 'hltu':
                                halted = x < y
                            elif op == 'hleu':
                                halted = x <= y
                            elif op == 'hgtu':
                                halted = x > y
                            else:
                                halted = x >= y
                        else:
                            if x & sign:
                                x -= full
                            if y & sign:
                                y -= full
                            if op == 'hlt':
                                halted = x < y
                            elif op == 'hle':
                                halted = x <= y
                            elif op == 'hgt':
                                halted = x > y
                            else:
                                halted = x >= y
                    elif c0 == 'l':
                        # loads: lws lwc lbs lbc lwso lwco lbso lbco
                        addr = y if n == 2 else (y + z) & mask
                        sz = ws if op[1] == 'w' else 1
                        if op[2] == 's':
                            if addr + sz > nmem:
                                faults.append((pc, 'load outside state'))
                                halted = True
                            else:
                                r = from_bytes(mem[addr:addr + sz], 'little')
                        else:
                            if addr + sz > nconst:
                                faults.append((pc, 'load outside const'))
                                halted = True
                            else:
                                r = from_bytes(const[addr:addr + sz], 'little')
                        if not halted:
                            undo.append((d, mem[d:d + ws]))
                            mem[d:d + ws] = r.to_bytes(ws, 'little')
                    elif c0 == 's' and op != 'sub' and op != 'sleep':
                        # stores: sws sbs swso sbso
                        if len(op) == 3:
                            addr = x
                            val = y
                        else:
                            addr = (x + y) & mask
                            val = z
                        sz = ws if op[1] == 'w' else 1
                        if addr + sz > nmem:
                            faults.append((pc, 'store outside state'))
                            halted = True
                        else:
                            undo.append((addr, mem[addr:addr + sz]))
                            mem[addr:addr + sz] = (val & ((1 << 8 * sz) - 1)).to_bytes(sz, 'little')
                    elif op == 'yield':
                        events.append(('out', x & 0xFF))
                    elif op == 'sleep':
                        events.append(('sleep', x))
                    else:
                        if op == 'mov':
                            r = y
                        elif op == 'add':
                            r = (y + z) & mask
                        elif op == 'sub':
                            r = (y - z) & mask
                        elif op == 'mul':
                            r = (y * z) & mask
                        elif op == 'and':
                            r = y & z
                        elif op == 'or':
                            r = y | z
                        elif op == 'xor':
                            r = y ^ z
                        elif op == 'div' or op == 'mod':
                            if z == 0:
                                faults.append((pc, 'division by zero'))
                                halted = True
                            else:
                                if y & sign:
                                    y -= full
                                if z & sign:
                                    z -= full
                                r = ((y // z) if op == 'div' else (y % z)) & mask
                        elif op == 'asl':
                            r = (y << z) & mask if z < bits else 0
                        elif op == 'asr':
                            if y & sign:
                                y -= full
                            r = (y >> (z if z < bits else bits)) & mask
                        else:
                            raise AsmError('unknown op ' + op)
                        if not halted:
                            undo.append((d, mem[d:d + ws]))
                            mem[d:d + ws] = r.to_bytes(ws, 'little')
            else:
                faults.append((pc, 'pc outside code'))
                halted = True
            if halted:
                if not choices:
                    if faults and faults[-1][0] == pc:
                        res.fault_committed = faults[-1]
                    return finish(HALT)
                averted += 1
                target, ul, el, vl, dl = choices.pop()
                while len(undo) > ul:
                    addr, old = undo.pop()
                    mem[addr:addr + len(old)] = old
                del events[el:]
                if len(vlist) > vl:
                    for key in vlist[vl:]:
                        del visited[key]
                    del vlist[vl:]
                del decisions[dl:]
                decisions.append(True)
                pc = target
                key = (target, blake(mem, digest_size=16).digest())
                if key in visited:
                    return finish(FOREVER)
                visited[key] = True
                vlist.append(key)
                continue
            pc += 1

    # ------------------------------------------------------------------
    def replay(self, decisions, monitor, max_steps=None):
        """Linear execution following `decisions`; mem must be pristine.

        monitor gets: on_instr(pc, op, a) before each instruction,
        on_load(pc, sec, addr, size, base), on_store(pc, addr, size, base, val),
        on_jump(pc, target, taken), on_event(ev).
        Stops when decisions are exhausted at a jump (end of recorded path)
        or at a halt.  Returns the list of events produced.
        """
        code = self.code
        ncode = len(code)
        mem = bytearray(self.p.state)
        self.rmem = mem
        const = self.const
        ws = self.ws
        mask = self.mask
        sign = self.sign
        bits = self.bits
        full = mask + 1
        events = []
        pc = 0
        di = 0
        nd = len(decisions)
        fb = int.from_bytes
        monitor.begin(self, mem)
        steps = 0

        def val(o):
            k, v = o
            if k == 'i':
                return v
            if k == 's':
                return fb(mem[v:v + ws], 'little')
            return fb(const[v:v + ws], 'little')

        def sg(v):
            return v - full if v & sign else v


        while True:
            steps += 1
            if max_steps is not None and steps > max_steps:
                return events
            if not (0 <= pc < ncode):
                monitor.on_pc_escape(pc)
                return events
            op, a = code[pc]
            monitor.on_instr(pc, op, a)
            if op == 'j':
                target = val(a[0])
                if di >= nd:
                    return events
                taken = decisions[di]
                di += 1
                monitor.on_jump(pc, target, taken, a[0])
                pc = target if taken else pc + 1
                continue
            if op == 'halt':
                monitor.on_halt(pc)
                return events
            if op == 'flag':
                ev = ('flag', a[0][1])
                events.append(ev)
                monitor.on_event(pc, ev)
            elif op[0] == 'h':
                x = val(a[0])
                y = val(a[1])
                if op == 'heq':
                    h = x == y
                elif op == 'hne':
                    h = x != y
                elif op == 'hltu':
                    h = x < y
                elif op == 'hleu':
                    h = x <= y
                elif op == 'hgtu':
                    h = x > y
                elif op == 'hgeu':
                    h = x >= y
                elif op == 'hlt':
                    h = sg(x) < sg(y)
                elif op == 'hle':
                    h = sg(x) <= sg(y)
                elif op == 'hgt':
                    h = sg(x) > sg(y)
                elif op == 'hge':
                    h = sg(x) >= sg(y)
                else:
                    raise AsmError('unknown op ' + op)
                if h:
                    monitor.on_halt(pc)
                    return events
            elif op in ('lws', 'lwc', 'lbs', 'lbc', 'lwso', 'lwco', 'lbso', 'lbco'):
                d = a[0][1]
                if len(a) == 2:
                    addr = val(a[1])
                    off = None
                else:
                    off = val(a[2])
                    addr = (val(a[1]) + off) & mask
                sz = ws if op[1] == 'w' else 1
                sec = op[2]
                m = mem if sec == 's' else const
                if not monitor.on_load(pc, sec, addr, sz, a[1], off):
                    return events
                if addr + sz > len(m):
                    monitor.on_fault(pc, 'load outside section')
                    return events
                r = fb(m[addr:addr + sz], 'little')
                monitor.on_alu(pc, op, d, a, r)
                mem[d:d + ws] = r.to_bytes(ws, 'little')
            elif op in ('sws', 'sbs', 'swso', 'sbso'):
                if len(a) == 2:
                    addr = val(a[0])
                    v = val(a[1])
                    off = None
                else:
                    off = val(a[1])
                    addr = (val(a[0]) + off) & mask
                    v = val(a[2])
                sz = ws if op[1] == 'w' else 1
                if addr + sz > len(mem):
                    monitor.on_fault(pc, 'store outside state')
                    return events
                monitor.on_store(pc, addr, sz, a[0], v, off)
                mem[addr:addr + sz] = (v & ((1 << 8 * sz) - 1)).to_bytes(sz, 'little')
            elif op == 'yield':
                ev = ('out', val(a[0]) & 0xFF)
                events.append(ev)
                monitor.on_event(pc, ev)
            elif op == 'sleep':
                ev = ('sleep', val(a[0]))
                events.append(ev)
                monitor.on_event(pc, ev)
            else:
                d = a[0][1]
                y = val(a[1])
                if op == 'mov':
                    r = y
                else:
                    z = val(a[2])
                    if op == 'add':
                        r = y + z
                    elif op == 'sub':
                        r = y - z
                    elif op == 'mul':
                        r = y * z
                    elif op == 'and':
                        r = y & z
                    elif op == 'or':
                        r = y | z
                    elif op == 'xor':
                        r = y ^ z
                    elif op in ('div', 'mod'):
                        if z == 0:
                            monitor.on_fault(pc, 'division by zero')
                            return events
                        r = sg(y) // sg(z) if op == 'div' else sg(y) % sg(z)
                    elif op == 'asl':
                        r = (y << z) if z < bits else 0
                    elif op == 'asr':
                        r = sg(y) >> (z if z < bits else bits)
                    else:
                        raise AsmError('unknown op ' + op)
                monitor.on_alu(pc, op, d, a, r & mask)
                mem[d:d + ws] = (r & mask).to_bytes(ws, 'little')
            pc += 1


class NullMonitor:
    """Base monitor: all hooks are no-ops."""

    def begin(self, vm, mem):
        self.vm = vm
        self.mem = mem

    def on_instr(self, pc, op, a):
        pass

    def on_load(self, pc, sec, addr, size, base, off):
        return True

    def on_store(self, pc, addr, size, base, val, off=None):
        pass

    def on_alu(self, pc, op, dest, a, result):
        pass

    def on_jump(self, pc, target, taken, operand):
        pass

    def on_event(self, pc, ev):
        pass

    def on_halt(self, pc):
        pass

    def on_fault(self, pc, what):
        pass

    def on_pc_escape(self, pc):
        pass


def run_lines(lines, args=(), budget=2_000_000):
    prog = assemble(lines, args)
    vm = VM(prog)
    return vm.run(budget)
