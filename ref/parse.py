"""Independent parser: HiD source text -> hast (DESIGN.md 2.3).

Grammar from README.rst ("Language reference", "Blocks and functions") and
tests/test_parser.py read as documentation.  No context (flavour) checks here:
those are ref/context.py's business.  Expression nodes are left untyped;
ref/types.py annotates them.
"""
from hast import *  # noqa
from . import lex as L

TYPES = ('int', 'bool', 'byte', 'string')
AUG = {'+=': '+', '-=': '-', '*=': '*', '/=': '/', '%=': '%'}
BIN_LEVELS = [['or'], ['and'], ['==', '!=', '<', '<=', '>', '>='], ['+', '-'], ['*', '/', '%']]


class RefParseError(Exception):
    pass


class Parser:
    def __init__(self, text):
        self.toks = L.lex(text)
        self.i = 0

    # -- token helpers -------------------------------------------------------
    def peek(self, k=0):
        j = self.i + k
        return self.toks[j] if j < len(self.toks) else None

    def at(self, kind, value=None, k=0):
        t = self.peek(k)
        return t is not None and t.kind == kind and (value is None or t.value == value)

    def at_sym(self, v, k=0):
        return self.at('sym', v, k)

    def at_kw(self, v, k=0):
        return self.at('kw', v, k)

    def eat(self, kind, value=None):
        if not self.at(kind, value):
            raise RefParseError('expected %s %r, got %r' % (kind, value, self.peek()))
        t = self.toks[self.i]
        self.i += 1
        return t

    def accept(self, kind, value=None):
        if self.at(kind, value):
            self.i += 1
            return True
        return False

    def at_type(self, k=0):
        t = self.peek(k)
        return t is not None and t.kind == 'kw' and t.value in TYPES

    # -- program -------------------------------------------------------------
    def program(self):
        globs = []
        funcs = []
        while self.peek() is not None:
            if self.accept('sym', ';'):
                continue
            t = self.peek()
            if t.kind == 'kw' and (t.value in TYPES or t.value == 'empty') and self.at('ident', None, 1) and self.at_sym('(', 2):
                funcs.append(self.func())
            else:
                globs.append(self.vdecl())
                self.eat('sym', ';')
        return Program(globs, funcs)

    def func(self):
        ret = self.eat('kw').value
        name_t = self.eat('ident')
        name = name_t.value[0] + name_t.value[1]
        self.eat('sym', '(')
        params = []
        if not self.at_sym(')'):
            while True:
                params.append(self.param())
                if self.accept('sym', ','):
                    continue
                break
        self.eat('sym', ')')
        body = self.codeblock()
        return Func(ret, name, params, body)

    def decl_head(self):
        const = self.accept('kw', 'const')
        if not self.at_type():
            raise RefParseError('expected a data type, got %r' % (self.peek(),))
        ty = self.eat('kw').value
        is_array = False
        if self.at_sym('[') and self.at_sym(']', 1):
            self.i += 2
            is_array = True
        name_t = self.eat('ident')
        if name_t.value[0]:
            raise RefParseError('flavoured variable name')
        return const, ty, is_array, name_t.value[1]

    def param(self):
        const, ty, is_array, name = self.decl_head()
        if is_array:
            return Param(arr(ty, const), True, name)
        return Param(ty, const, name)

    def vdecl(self):
        const, ty, is_array, name = self.decl_head()
        if self.at_sym('['):
            if is_array:
                raise RefParseError('unexpected [')
            self.i += 1
            length = self.expr()
            self.eat('sym', ']')
            d = ArrDecl(ty, name, length)
            d.t = 'const' if const else None     # `const T a[n]` is a type error, remembered for ref.types
            return d
        self.eat('sym', '=')
        init = self.expr()
        if is_array:
            return Decl(arr(ty, const), True, name, init)
        return Decl(ty, const, name, init)

    # -- blocks ----------------------------------------------------------------
    def codeblock(self):
        self.eat('sym', '{')
        stmts = []
        while not self.at_sym('}'):
            if self.peek() is None:
                raise RefParseError('unclosed block')
            if self.accept('sym', ';'):
                continue
            if self.at_block_start():
                stmts.append(self.block())
            else:
                stmts.append(self.stmt())
                self.eat('sym', ';')
        self.eat('sym', '}')
        return Block(stmts)

    def at_block_start(self):
        t = self.peek()
        return t is not None and ((t.kind == 'kw' and t.value in ('if', 'while', 'for', 'try', 'preempt')) or
                                  (t.kind == 'sym' and t.value == '{'))

    def block(self):
        if self.accept('kw', 'if'):
            self.eat('sym', '(')
            cond = self.expr()
            self.eat('sym', ')')
            then = self.block()
            els = None
            if self.accept('kw', 'else'):
                els = self.block()
            return If(cond, then, els)
        if self.accept('kw', 'while'):
            self.eat('sym', '(')
            cond = self.expr()
            self.eat('sym', ')')
            return While(cond, self.block())
        if self.accept('kw', 'for'):
            self.eat('sym', '(')
            init = None if self.at_sym(';') else self.plain(True)
            self.eat('sym', ';')
            cond = None if self.at_sym(';') else self.expr()
            self.eat('sym', ';')
            step = None if self.at_sym(')') else self.plain(False)
            self.eat('sym', ')')
            return For(init, cond, step, self.block())
        if self.accept('kw', 'try'):
            body = self.block()
            t = self.peek()
            if t is None or t.kind != 'kw' or t.value not in ('undo', 'stop'):
                raise RefParseError('try without undo/stop')
            self.i += 1
            return Try(body, t.value, self.block())
        if self.accept('kw', 'preempt'):
            return Preempt(self.block())
        if self.at_sym('{'):
            return self.codeblock()
        raise RefParseError('expected a block, got %r' % (self.peek(),))

    def stmt(self):
        if self.accept('kw', 'break'):
            return Break()
        if self.accept('kw', 'continue'):
            return Continue()
        if self.accept('kw', 'return'):
            if self.at_sym(';'):
                return Return(None)
            return Return(self.expr())
        return self.plain(True)

    def plain(self, allow_decl):
        if self.at_kw('const') or self.at_type():
            if not allow_decl:
                raise RefParseError('declaration not allowed here')
            return self.vdecl()
        e = self.expr()
        if self.at_sym('='):
            if not isinstance(e, (Var, Index)):
                raise RefParseError('not assignable')
            self.i += 1
            return Assign(e, self.expr())
        t = self.peek()
        if t is not None and t.kind == 'sym' and t.value in AUG:
            if not isinstance(e, (Var, Index)):
                raise RefParseError('not assignable')
            self.i += 1
            return AugAssign(e, AUG[t.value], self.expr())
        return ExprStmt(e)

    # -- expressions -------------------------------------------------------------
    def expr(self):
        left = self.binary(0)
        if self.accept('sym', '??'):
            right = self.binary(0)
            if self.at_sym('??'):
                raise RefParseError('?? does not chain')
            return Spec(left, right)
        return left

    def binary(self, level):
        if level == len(BIN_LEVELS):
            return self.cast()
        left = self.binary(level + 1)
        while True:
            t = self.peek()
            if t is not None and t.kind in ('sym', 'kw') and t.value in BIN_LEVELS[level]:
                self.i += 1
                right = self.binary(level + 1)
                left = Bin(t.value, left, right)
            else:
                return left

    def cast(self):
        e = self.unary()
        if self.accept('kw', 'is'):
            if not self.at_type():
                raise RefParseError('expected type after is')
            ty = self.eat('kw').value
            if self.at_sym('['):
                self.i += 1
                self.eat('sym', ']')
                ty = arr(ty, True)
            return Is(e, ty)
        return e

    def unary(self):
        t = self.peek()
        if t is not None and ((t.kind == 'sym' and t.value in ('+', '-')) or (t.kind == 'kw' and t.value == 'not')):
            self.i += 1
            return Un(t.value, self.unary())
        return self.postfix()

    def postfix(self):
        e = self.primary()
        while True:
            if self.at_sym('.'):
                self.i += 1
                t = self.peek()
                if t is None or t.kind != 'ident' or t.value != ('', 'length'):
                    raise RefParseError('expected length')
                self.i += 1
                e = Len(e)
            elif self.at_sym('['):
                self.i += 1
                idx = self.expr()
                self.eat('sym', ']')
                e = Index(e, idx)
            else:
                return e

    def arglist(self, close):
        out = []
        if self.accept('sym', close):
            return out
        while True:
            out.append(self.expr())
            if self.accept('sym', ','):
                continue
            self.eat('sym', close)
            return out

    def primary(self):
        t = self.peek()
        if t is None:
            raise RefParseError('unexpected end of input')
        if t.kind == 'sym' and t.value == '(':
            self.i += 1
            e = self.expr()
            self.eat('sym', ')')
            return Paren(e)
        if t.kind == 'int':
            self.i += 1
            return Lit('int', t.value, None)
        if t.kind == 'char':
            self.i += 1
            return Lit('char', t.value, None)
        if t.kind == 'string':
            self.i += 1
            return Lit('string', t.value, None)
        if t.kind == 'kw' and t.value in ('true', 'false'):
            self.i += 1
            return Lit('bool', t.value == 'true', None)
        if t.kind == 'sym' and t.value == '[':
            self.i += 1
            return ArrLit(self.arglist(']'))
        if t.kind == 'ident':
            self.i += 1
            name = t.value[0] + t.value[1]
            if self.at_sym('('):
                self.i += 1
                return Call(name, self.arglist(')'))
            if t.value[0]:
                raise RefParseError('flavoured identifier used as a variable')
            return Var(name)
        raise RefParseError('unexpected token %r' % (t,))


def parse_program(text):
    p = Parser(text)
    return p.program()
