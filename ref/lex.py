"""Reference tokenizer for HiD, written character by character from README.rst
(literal forms, operators, flavoured identifiers) and tests/test_lexer.py read
as documentation.  Shares nothing with hidc.lexer (no regexes).

Domain (DESIGN.md C12 guards): identifiers are ASCII; whitespace is space, tab,
newline, form feed, vertical tab; a carriage return is outside the domain.
"""

KEYWORDS = {
    'or', 'and', 'not', 'is',
    'break', 'continue', 'return', 'const',
    'if', 'else', 'while', 'for', 'try', 'undo', 'stop', 'preempt',
    'int', 'bool', 'byte', 'string', 'empty',
    'true', 'false',
}
SYMBOLS = ['==', '!=', '<=', '>=', '??', '+=', '-=', '*=', '/=', '%=',
           '+', '-', '*', '/', '%', '<', '>', '=', ';', ',', '.', '(', ')', '{', '}', '[', ']']
SYMBOLS.sort(key=len, reverse=True)
NAMED_ESCAPES = {'a': 7, 'b': 8, 'f': 12, 'n': 10, 'r': 13, 't': 9, '0': 0, "'": 0x27, '"': 0x22, '\\': 0x5c}
WS = ' \t\f\v'
HEX = '0123456789abcdefABCDEF'


class RefLexError(Exception):
    def __init__(self, msg, line, col):
        super().__init__('%s at %d:%d' % (msg, line + 1, col + 1))
        self.line = line
        self.col = col


def is_ident_start(c):
    return ('a' <= c <= 'z') or ('A' <= c <= 'Z') or c == '_'


def is_ident_char(c):
    return is_ident_start(c) or ('0' <= c <= '9')


class Tok:
    __slots__ = ('kind', 'value', 'span')

    def __init__(self, kind, value, span):
        self.kind = kind      # 'sym' 'kw' 'ident' 'int' 'string' 'char'
        self.value = value    # symbol text | keyword | (flavor, name) | int | bytes | int
        self.span = span      # (line0, col0, line1, col1)

    def key(self):
        return (self.kind, self.value, self.span)

    def __repr__(self):
        return 'Tok(%s, %r, %r)' % (self.kind, self.value, self.span)


def in_domain(text):
    """Is the text inside the domain on which the reference tokenizer is authoritative?"""
    for ch in text:
        o = ord(ch)
        if ch == '\r':
            return False
        if 0xD800 <= o <= 0xDFFF:
            return False
        if o < 0x20 and ch not in '\t\n\f\v':
            # other control characters: some are whitespace to a regex engine, the README says nothing
            return False
    return True


def lex(text):
    """-> list of Tok.  Raises RefLexError."""
    lines = text.split('\n')
    toks = []
    for ln, line in enumerate(lines):
        i = 0
        n = len(line)
        while i < n:
            c = line[i]
            if c in WS:
                i += 1
                continue
            if c == '/' and i + 1 < n and line[i + 1] == '/':
                break
            start = i
            # symbols (longest first)
            sym = None
            for s in SYMBOLS:
                if line.startswith(s, i):
                    sym = s
                    break
            if sym is not None:
                i += len(sym)
                toks.append(Tok('sym', sym, (ln, start, ln, i)))
                continue
            if c == '@' or c == '!':
                j = i + 1
                if j < n and ord(line[j]) > 127 and (line[j].isalnum() or line[j] == '_'):
                    raise OutOfDomain('non-ASCII identifier character')
                if j < n and is_ident_start(line[j]):
                    k = j
                    while k < n and is_ident_char(line[k]):
                        k += 1
                    if k < n and ord(line[k]) > 127 and (line[k].isalnum() or line[k] == '_'):
                        raise OutOfDomain('non-ASCII identifier character')
                    name = line[j:k]
                    if name in KEYWORDS:
                        raise RefLexError('flavoured keyword', ln, i)
                    toks.append(Tok('ident', (c, name), (ln, start, ln, k)))
                    i = k
                    continue
                raise RefLexError('bad flavoured identifier', ln, i)
            if is_ident_start(c):
                k = i
                while k < n and is_ident_char(line[k]):
                    k += 1
                if k < n and ord(line[k]) > 127 and (line[k].isalnum() or line[k] == '_'):
                    raise OutOfDomain('non-ASCII identifier character')
                name = line[i:k]
                if name in KEYWORDS:
                    toks.append(Tok('kw', name, (ln, start, ln, k)))
                else:
                    toks.append(Tok('ident', ('', name), (ln, start, ln, k)))
                i = k
                continue
            if '0' <= c <= '9':
                i, v = lex_int(line, i)
                toks.append(Tok('int', v, (ln, start, ln, i)))
                continue
            if c == '"':
                i, data = lex_string(line, i, ln)
                toks.append(Tok('string', data, (ln, start, ln, i)))
                continue
            if c == "'":
                i, b = lex_char(line, i, ln)
                toks.append(Tok('char', b, (ln, start, ln, i)))
                continue
            if ord(c) > 127:
                if c.isspace() or c.isalnum():
                    raise OutOfDomain('non-ASCII space/letter/digit outside literals')
            raise RefLexError('unexpected character %r' % c, ln, i)
    return toks


class OutOfDomain(Exception):
    pass


def digits_with_sep(line, i, allowed):
    """Longest run matching (D _?)* D starting at i; returns end index (i if none)."""
    n = len(line)
    j = i
    last_good = i
    while j < n:
        if line[j] in allowed:
            j += 1
            last_good = j
            if j < n and line[j] == '_':
                # underscore must be followed by a digit to stay inside the literal
                if j + 1 < n and line[j + 1] in allowed:
                    j += 1
                    continue
                break
        else:
            break
    return last_good


def lex_int(line, i):
    n = len(line)
    if line[i] == '0' and i + 1 < n and line[i + 1] in 'xob':
        p = line[i + 1]
        allowed = {'x': HEX, 'o': '01234567', 'b': '01'}[p]
        end = digits_with_sep(line, i + 2, allowed)
        if end > i + 2:
            return end, int(line[i + 2:end].replace('_', ''), {'x': 16, 'o': 8, 'b': 2}[p])
    end = digits_with_sep(line, i, '0123456789')
    for ch in line[i:end]:
        pass
    return end, int(line[i:end].replace('_', ''), 10)


def lex_escape(line, i, ln):
    """line[i] == '\\' -> (new index, bytes)"""
    n = len(line)
    if i + 1 >= n:
        raise RefLexError('dangling backslash', ln, i)
    e = line[i + 1]
    if e == 'x':
        h = line[i + 2:i + 4]
        if len(h) == 2 and h[0] in HEX and h[1] in HEX:
            return i + 4, bytes([int(h, 16)])
        raise RefLexError('bad \\x escape', ln, i)
    if e == 'u':
        if i + 2 < n and line[i + 2] == '{':
            k = i + 3
            while k < n and line[k] in HEX:
                k += 1
            if k > i + 3 and k < n and line[k] == '}':
                cp = int(line[i + 3:k], 16)
                if cp > 0x10FFFF:
                    raise RefLexError('code point too large', ln, i)
                if 0xD800 <= cp <= 0xDFFF:
                    raise RefLexError('surrogate cannot be encoded', ln, i)
                return k + 1, chr(cp).encode('utf-8')
        raise RefLexError('bad \\u escape', ln, i)
    if e in NAMED_ESCAPES:
        return i + 2, bytes([NAMED_ESCAPES[e]])
    raise RefLexError('unknown escape \\%s' % e, ln, i)


def lex_string(line, i, ln):
    n = len(line)
    j = i + 1
    out = bytearray()
    while True:
        if j >= n:
            raise RefLexError('unclosed string', ln, j)
        c = line[j]
        if c == '"':
            return j + 1, bytes(out)
        if c == '\\':
            j, b = lex_escape(line, j, ln)
            out += b
        else:
            out += c.encode('utf-8')
            j += 1


def lex_char(line, i, ln):
    n = len(line)
    j = i + 1
    if j >= n:
        raise RefLexError('unclosed char', ln, j)
    if line[j] == "'":
        raise RefLexError('empty char literal', ln, j)
    if line[j] == '\\':
        j, b = lex_escape(line, j, ln)
    else:
        b = line[j].encode('utf-8')
        j += 1
    if j >= n or line[j] != "'":
        raise RefLexError("expected closing '", ln, j)
    if len(b) != 1:
        raise RefLexError('char literal is not a single byte', ln, j)
    return j + 1, b[0]
