"""Source-level reference interpreter for HiD (DESIGN.md 2.3).

Written from README.rst and the property statements, over hast.  Sequential
core plus prophecy semantics (try/undo, try/stop, preempt, ??, return
protection of preemptive defeat functions) by re-execution with a choice
script: every choice point takes its default unless that leads to (real)
defeat, most recent choice flipped first.
"""
from hast import *  # noqa


class Halt(Exception):
    """Real defeat: the machine would halt on this timeline."""


class DefeatCaught(Exception):
    """Virtualised defeat: unwinds to the active try/stop handler."""


class Terminal(Exception):
    def __init__(self, kind):
        super().__init__(kind)
        self.kind = kind            # 'win' | 'error' | 'fault:<flag>' | 'forever'


class Budget(Exception):
    pass


class Undefined(Exception):
    """Behaviour the language leaves unspecified (poison read, UB)."""

    def __init__(self, why):
        super().__init__(why)
        self.why = why


class _Return(Exception):
    def __init__(self, value):
        self.value = value


class _Break(Exception):
    pass


class _Continue(Exception):
    pass


class Poison:
    def __repr__(self):
        return 'POISON'


POISON = Poison()


class ArrayObj:
    __slots__ = ('elems', 'el')

    def __init__(self, el, elems):
        self.el = el
        self.elems = elems


class Box:
    __slots__ = ('v',)

    def __init__(self, v):
        self.v = v


BUILTIN_WRITE_ORDER = [STRING, arr(BYTE, True), INT, BYTE, BOOL]


def contains_preempt(x):
    return any(isinstance(n, Preempt) for n in walk(x))


class Outcome:
    def __init__(self, kind, events, stats):
        self.kind = kind            # win | error | fault:<flag> | forever | halt | budget | undefined:<why>
        self.events = events
        self.stats = stats

    @property
    def output(self):
        return bytes(e[1] for e in self.events if e[0] == 'out')

    @property
    def flags(self):
        return [e[1] for e in self.events if e[0] == 'flag']


class Interp:
    def __init__(self, prog, argv, ws, checked, script, budget, stack_words=400):
        self.prog = prog
        self.ws = ws
        self.bits = 8 * ws
        self.mask = (1 << self.bits) - 1
        self.half = 1 << (self.bits - 1)
        self.checked = checked
        self.script = script
        self.ci = 0
        self.budget = budget
        self.steps = 0
        self.events = []
        self.virtual = False
        self.funcs = {}
        for f in prog.funcs:
            self.funcs.setdefault(f.name, []).append(f)
        self.globals = {}
        self.frames = []
        self.argv = argv
        self.stack_bytes = stack_words * ws
        self.stats = {'flips': 0, 'choices': {}, 'max_depth': 0, 'calls': 0, 'try_blocks': 0,
                      'short_circuit': 0, 'branches_taken': 0, 'branches_not_taken': 0,
                      'aug': 0, 'overload': 0, 'elem_write': 0, 'loops_iter': 0}

    # -- helpers -----------------------------------------------------------
    def wrap(self, v):
        w = v & self.mask
        if w & self.half:
            w -= self.mask + 1
        if w != v:
            self.stats['wrapped'] = self.stats.get('wrapped', 0) + 1
        return w

    def tick(self, n=1):
        self.steps += n
        if self.steps > self.budget:
            raise Budget()

    def note(self, what):
        c = self.stats['choices']
        c[what] = c.get(what, 0) + 1

    def choose(self, what):
        i = self.ci
        self.ci += 1
        if i < len(self.script):
            r = self.script[i]
        else:
            self.script.append(False)
            r = False
        self.note(what + (':alt' if r else ':default'))
        return r

    def out(self, data):
        for b in data:
            self.events.append(('out', b))

    def flag(self, name):
        self.events.append(('flag', name))

    def fault(self, name):
        if not self.checked:
            raise Undefined('fault %s in unchecked build' % name)
        self.flag(name)
        self.flag('error')
        raise Terminal('fault:' + name)

    def defeat(self):
        if self.virtual:
            raise DefeatCaught()
        raise Halt()

    # -- variables -----------------------------------------------------------
    def lookup(self, name):
        if self.frames:
            for scope in reversed(self.frames[-1]):
                if name in scope:
                    return scope[name]
        if name in self.globals:
            return self.globals[name]
        raise KeyError('reference model: unbound variable ' + name)

    def bind(self, name, value):
        self.frames[-1][-1][name] = value if isinstance(value, ArrayObj) else Box(value)

    # -- program -----------------------------------------------------------
    def run(self):
        try:
            for g in self.prog.globals:
                if isinstance(g, ArrDecl):
                    n = self.eval(g.length)
                    self.globals[g.name] = ArrayObj(g.el, [POISON] * n)
                else:
                    v = self.eval(g.init)
                    self.globals[g.name] = v if isinstance(v, ArrayObj) else Box(v)
        except Terminal as t:
            return t.kind
        mains = self.funcs.get('@is_you', [])
        if len(mains) != 1:
            raise AssertionError('reference model needs exactly one @is_you')
        main = mains[0]
        args = []
        for p, a in zip(main.params, self.argv):
            if is_arr(p.ty):
                args.append(ArrayObj(p.ty[1], list(a)))
            else:
                args.append(a)
        try:
            self.call_func(main, args)
            self.flag('win')
            return 'win'
        except Terminal as t:
            return t.kind

    def call_func(self, f, args):
        self.tick()
        self.stats['calls'] += 1
        if len(self.frames) > MAX_FRAMES[0]:
            raise Budget()
        scope = {}
        for p, a in zip(f.params, args):
            scope[p.name] = a if isinstance(a, ArrayObj) else Box(a)
        self.frames.append([scope])
        self.stats['max_depth'] = max(self.stats['max_depth'], len(self.frames))
        try:
            try:
                self.exec_block(f.body, new_scope=True)
                ret = None
            except _Return as r:
                ret = r.value
            if f.ret != EMPTY and ret is None:
                raise Undefined('fell off the end of value function %s' % f.name)
            if f.ret == BYTE and isinstance(ret, int) and not isinstance(ret, bool):
                ret = self.narrow(ret, BYTE)
        finally:
            self.frames.pop()
        if self.checked and f.name.startswith('!') and contains_preempt(f.body):
            # return protection: error iff returning leads to unavoidable defeat
            if self.choose('retprot'):
                self.fault('nonlocal_preempt')
        return ret

    # -- statements --------------------------------------------------------
    def exec_block(self, b, new_scope=True):
        if new_scope:
            self.frames[-1].append({})
        try:
            for s in b.stmts:
                self.exec(s)
        finally:
            if new_scope:
                self.frames[-1].pop()

    def exec_body(self, s):
        if isinstance(s, Block):
            self.exec_block(s)
        else:
            self.exec(s)

    def truth(self, e):
        v = self.eval(e)
        return self.truthy(v)

    @staticmethod
    def truthy(v):
        if isinstance(v, ArrayObj):
            return len(v.elems) != 0
        if isinstance(v, bytes):
            return len(v) != 0
        return v != 0

    def exec(self, s):
        self.tick()
        if isinstance(s, ExprStmt):
            self.eval(s.e)
        elif isinstance(s, Decl):
            v = self.eval(s.init)
            init0 = s.init
            while isinstance(init0, Paren):
                init0 = init0.e
            if is_arr(s.ty) and isinstance(v, ArrayObj) and isinstance(init0, ArrLit):
                # the literal takes the declared element type: int literals stored into a byte array keep the low byte
                v = ArrayObj(s.ty[1], [x if (x is POISON or isinstance(x, bytes)) else self.narrow(x, s.ty[1]) for x in v.elems])
            elif not is_arr(s.ty) and isinstance(v, int) and not isinstance(v, bool):
                v = self.narrow(v, s.ty)
            self.bind(s.name, v)
        elif isinstance(s, ArrDecl):
            n = self.eval(s.length)
            size = (n + 7) // 8 if s.el == BOOL else n * (1 if s.el == BYTE else self.ws)
            if n < 0 or size > self.stack_bytes:
                # negative or unrepresentably large length, or one that cannot fit the stack at all
                self.fault('stack_overflow')
            if size > self.stack_bytes // 4:
                raise Undefined('whether this array fits depends on the stack size')
            self.bind(s.name, ArrayObj(s.el, [POISON] * n))
        elif isinstance(s, Assign):
            self.assign(s.target, s.e, None)
        elif isinstance(s, AugAssign):
            self.assign(s.target, s.e, s.op)
        elif isinstance(s, Block):
            self.exec_block(s)
        elif isinstance(s, If):
            if self.truth(s.cond):
                self.stats['branches_taken'] += 1
                self.exec_body(s.then)
            else:
                self.stats['branches_not_taken'] += 1
                if s.els is not None:
                    self.exec_body(s.els)
        elif isinstance(s, While):
            self.loop(None, s.cond, None, s.body)
        elif isinstance(s, For):
            self.frames[-1].append({})
            try:
                if s.init is not None:
                    self.exec(s.init)
                self.loop(None, s.cond, s.step, s.body)
            finally:
                self.frames[-1].pop()
        elif isinstance(s, Return):
            v = None if s.e is None else self.eval(s.e)
            raise _Return(v)
        elif isinstance(s, Break):
            raise _Break()
        elif isinstance(s, Continue):
            raise _Continue()
        elif isinstance(s, Try):
            self.exec_try(s)
        elif isinstance(s, Preempt):
            if self.virtual:
                self.note('preempt:forced')
                self.exec_body(s.body)
            elif self.choose('preempt'):
                self.exec_body(s.body)
        else:
            raise TypeError('reference model: unknown statement %r' % (s,))

    def loop(self, init, cond, step, body):
        trivially_infinite = (cond is None or (isinstance(cond, Lit) and cond.kind == 'bool' and cond.value))
        if trivially_infinite and step is None and isinstance(body, Block) and not body.stmts:
            raise Terminal('forever')
        while True:
            self.tick()
            if cond is not None and not self.truth(cond):
                break
            try:
                self.exec_body(body)
            except _Break:
                break
            except _Continue:
                pass
            if step is not None:
                self.exec(step)

    def exec_try(self, s):
        self.stats['try_blocks'] += 1
        if s.kind == 'undo':
            if self.choose('undo'):
                self.exec_body(s.handler)
            else:
                self.exec_body(s.body)
            return
        # try/stop: default = real defeat, alternative = defeat virtualised
        self.virtual = self.choose('stop')
        try:
            self.exec_body(s.body)
        except DefeatCaught:
            self.virtual = False
            self.note('stop:handler_ran')
            self.exec_body(s.handler)
            return
        except (_Return, _Break, _Continue):
            self.virtual = False
            raise
        self.virtual = False

    # -- assignment --------------------------------------------------------
    def arith(self, op, l, r):
        if op == '+':
            return self.wrap(l + r)
        if op == '-':
            return self.wrap(l - r)
        if op == '*':
            return self.wrap(l * r)
        if r == 0:
            self.fault('division_by_zero')
        if op == '/':
            return self.wrap(l // r)
        if op == '%':
            return self.wrap(l % r)
        raise ValueError(op)

    def narrow(self, v, ty):
        """Value stored into a location of type ty (byte targets keep the low byte)."""
        if ty == BYTE:
            return v & 0xFF
        return v

    def assign(self, target, e, op):
        if isinstance(target, Var):
            box = None
            if op is None:
                v = self.eval(e)
            else:
                self.stats['aug'] += 1
                old = self.read_var(target.name)
                v = self.arith(op, old, self.num(self.eval(e)))
                # x op= e is x = x op e: int result into a byte variable is rejected by the
                # typechecker, so target is int here
            if target.t == BYTE and isinstance(v, int) and not isinstance(v, bool):
                v = self.narrow(v, BYTE)        # b op= e is b = b op e with the (byte-coercible) result narrowed back
            box = self.lookup(target.name)
            box.v = v
            return
        assert isinstance(target, Index)
        self.stats['elem_write'] += 1
        if op is not None:
            self.stats['aug'] += 1
        a = self.eval(target.src)
        i = self.eval(target.idx)
        if not (0 <= i < len(a.elems)):
            self.fault('out_of_bounds')
        if op is None:
            v = self.eval(e)
        else:
            old = a.elems[i]
            if old is POISON:
                raise Undefined('read of uninitialised element')
            v = self.arith(op, old, self.num(self.eval(e)))
        a.elems[i] = self.narrow(v, a.el)

    def read_var(self, name):
        c = self.lookup(name)
        if isinstance(c, ArrayObj):
            return c
        return c.v

    @staticmethod
    def num(v):
        return int(v)

    # -- expressions -------------------------------------------------------
    def eval(self, e):
        self.tick()
        if isinstance(e, Lit):
            if e.kind == 'int':
                return self.wrap(e.value)
            if e.kind == 'bool':
                return bool(e.value)
            return e.value
        if isinstance(e, Var):
            return self.read_var(e.name)
        if isinstance(e, Paren):
            return self.eval(e.e)
        if isinstance(e, Bin):
            op = e.op
            if op == 'and':
                if not self.truth(e.l):
                    self.stats['short_circuit'] += 1
                    return False
                return self.truth(e.r)
            if op == 'or':
                if self.truth(e.l):
                    self.stats['short_circuit'] += 1
                    return True
                return self.truth(e.r)
            l = self.eval(e.l)
            r = self.eval(e.r)
            if op in ('+', '-', '*', '/', '%'):
                return self.arith(op, int(l), int(r))
            l = int(l)
            r = int(r)
            if op == '==':
                return l == r
            if op == '!=':
                return l != r
            if op == '<':
                return l < r
            if op == '<=':
                return l <= r
            if op == '>':
                return l > r
            if op == '>=':
                return l >= r
            raise ValueError(op)
        if isinstance(e, Un):
            if e.op == 'not':
                return not self.truth(e.e)
            v = int(self.eval(e.e))
            return self.wrap(-v) if e.op == '-' else v
        if isinstance(e, Is):
            v = self.eval(e.e)
            ty = e.ty
            if ty == BOOL:
                return self.truthy(v)
            if ty == INT:
                return int(v)
            if ty == BYTE:
                return int(v) & 0xFF
            if is_arr(ty):
                if isinstance(v, bytes):
                    return ArrayObj(BYTE, list(v))
                return v
            raise ValueError('reference model: cast to %r' % (ty,))
        if isinstance(e, Index):
            a = self.eval(e.src)
            i = self.eval(e.idx)
            if isinstance(a, bytes):
                if not (0 <= i < len(a)):
                    self.fault('out_of_bounds')
                return a[i]
            if not (0 <= i < len(a.elems)):
                self.fault('out_of_bounds')
            v = a.elems[i]
            if v is POISON:
                raise Undefined('read of uninitialised element')
            return v
        if isinstance(e, Len):
            a = self.eval(e.src)
            return len(a) if isinstance(a, bytes) else len(a.elems)
        if isinstance(e, ArrLit):
            el = e.t[1] if e.t is not None else INT
            vals = [self.eval(x) for x in e.elems]
            return ArrayObj(el, [self.narrow(v, el) if not isinstance(v, bytes) else v for v in vals])
        if isinstance(e, Spec):
            r = self.eval(e.r)
            if self.choose('spec'):
                # a's value would equal b's: a is not evaluated
                return r
            l = self.eval(e.l)
            if l == r:
                raise Halt()
            return l
        if isinstance(e, Call):
            return self.call(e)
        raise TypeError('reference model: unknown expression %r' % (e,))

    # -- calls -------------------------------------------------------------
    def call(self, e):
        name = e.name
        args = e.args
        if name in ('write', 'writeln') and name not in self.funcs_user_overrides(name, args):
            if name == 'writeln' and not args:
                self.out(b'\n')
                return None
            v = self.eval(args[0])
            self.write_value(v, args[0].t)
            if name == 'writeln':
                self.out(b'\n')
            return None
        if name == '!is_defeat':
            self.defeat()
        if name == '!truth_is_defeat':
            if self.truth(args[0]):
                self.defeat()
            return None
        if name == 'all_is_win' and not args:
            self.flag('win')
            raise Terminal('win')
        if name == 'all_is_broken' and not args:
            self.flag('error')
            raise Terminal('error')
        if name == 'sleep' and len(args) == 1 and name not in self.funcs:
            v = self.eval(args[0])
            self.events.append(('sleep', v & self.mask))
            return None
        if name in ('debug', 'progress') and not args and name not in self.funcs:
            self.flag(name)
            return None
        f = self.resolve(name, args)
        vals = []
        for p, a in zip(f.params, args):
            v = self.eval(a)
            if isinstance(v, bytes) and is_arr(p.ty):
                v = ArrayObj(BYTE, list(v))
            a0 = a
            while isinstance(a0, Paren):
                a0 = a0.e
            if isinstance(a0, ArrLit) and isinstance(v, ArrayObj) and is_arr(p.ty):
                # an array literal argument takes the parameter's element type
                v = ArrayObj(p.ty[1], [x if (x is POISON or isinstance(x, bytes)) else self.narrow(x, p.ty[1]) for x in v.elems])
            vals.append(self.narrow(v, p.ty) if not isinstance(v, (bytes, ArrayObj)) else v)
        return self.call_func(f, vals)

    def funcs_user_overrides(self, name, args):
        # user-defined overloads of write/writeln are not generated
        return ()

    def write_value(self, v, t):
        if t == INT:
            self.out(str(int(v)).encode())
        elif t == BYTE:
            self.out(bytes([int(v) & 0xFF]))
        elif t == BOOL:
            self.out(b'true' if v else b'false')
        elif t == STRING:
            self.out(v)
        elif is_arr(t) and t[1] == BYTE:
            for x in (v.elems if isinstance(v, ArrayObj) else v):
                if x is POISON:
                    raise Undefined('write of uninitialised element')
            self.out(bytes(v.elems) if isinstance(v, ArrayObj) else v)
        else:
            raise TypeError('reference model: write(%r)' % (t,))

    # overload resolution: exact parameter types, else first declared coercible
    def resolve(self, name, args):
        cands = self.funcs.get(name)
        if not cands:
            raise KeyError('reference model: unknown function ' + name)
        if len(cands) == 1:
            return cands[0]
        self.stats['overload'] += 1
        at = []
        for a in args:
            a0 = a
            while isinstance(a0, Paren):
                a0 = a0.e
            # an array literal's preferred type is the const array of the first element type all entries coerce to
            # (its annotation may already be the parameter type it was bound to: recompute from the elements)
            at.append(arr(natural_elem(a0), True) if isinstance(a0, ArrLit) and is_arr(a0.t) else a0.t)
        for f in cands:
            if len(f.params) == len(args) and all(self.param_type(p) == t for p, t in zip(f.params, at)):
                return f
        for f in cands:
            if len(f.params) == len(args) and all(coercible(a, self.param_type(p)) for p, a in zip(f.params, args)):
                return f
        raise KeyError('reference model: no overload of %s for %r' % (name, at))

    @staticmethod
    def param_type(p):
        return p.ty


def shrinkable(e):
    """Is the int expression `e` implicitly coercible to byte (literal rule)?"""
    if isinstance(e, Paren):
        return shrinkable(e.e)
    if isinstance(e, Lit):
        return e.kind in ('int', 'char')
    if isinstance(e, Bin) and e.op in ('+', '-', '*', '/', '%'):
        return shrinkable(e.l) and shrinkable(e.r)
    if isinstance(e, Un) and e.op in ('+', '-'):
        return shrinkable(e.e)
    return e.t == BYTE


def natural_elem(lit):
    """Preferred element type of an array literal (README: "array of the first type all entries can be coerced to")."""
    seen = []
    for x in lit.elems:
        x0 = x
        while isinstance(x0, Paren):
            x0 = x0.e
        if x0.t not in seen:
            seen.append(x0.t)
    for t in seen:
        if all(coercible(x, t) for x in lit.elems):
            return t
    return lit.t[1]


def coercible(a, pt):
    while isinstance(a, Paren):
        a = a.e
    t = a.t
    if t == pt:
        return True
    if is_arr(t) and is_arr(pt):
        if isinstance(a, ArrLit):
            return all(coercible(x, pt[1]) for x in a.elems)
        return t[1] == pt[1] and pt[2]
    if t == BYTE and pt == INT:
        return True
    if t == STRING and pt == arr(BYTE, True):
        return True
    if t == INT and pt == BYTE:
        return shrinkable(a)
    return False


MAX_FRAMES = [60]      # call depth at which the reference gives up (budget); the C01 scale programs raise it


def run_reference(prog, argv, ws=2, checked=True, budget=200_000, max_flips=5000, stack_words=400):
    """-> Outcome.  argv: python values matching @is_you's parameters."""
    script = []
    total = 0
    flips = 0
    wrapped_spec = 0        # wrap-arounds on abandoned (speculative) executions: they influenced which choices were taken
    while True:
        it = Interp(prog, argv, ws, checked, script, budget - total, stack_words)
        if wrapped_spec:
            it.stats['wrapped'] = it.stats.get('wrapped', 0) + wrapped_spec
        try:
            kind = it.run()
        except Halt:
            total += it.steps
            wrapped_spec = it.stats.get('wrapped', 0)
            # flip the most recent default choice
            k = it.ci - 1
            while k >= 0 and script[k]:
                k -= 1
            if k < 0:
                it.stats['flips'] = flips
                return Outcome('halt', it.events, it.stats)
            del script[k + 1:]
            script[k] = True
            flips += 1
            if flips > max_flips or total > budget:
                return Outcome('budget', [], it.stats)
            continue
        except (Budget, RecursionError):
            return Outcome('budget', [], it.stats)
        except Undefined as u:
            return Outcome('undefined:' + u.why, it.events, it.stats)
        except DefeatCaught:
            raise AssertionError('reference model: virtual defeat escaped its try')
        it.stats['flips'] = flips
        it.stats['script'] = list(script[:it.ci])
        return Outcome(kind, it.events, it.stats)
