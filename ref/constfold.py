"""Case predicate for known finding F4 (DESIGN.md section 4).

hidc folds constant expressions on unbounded Python integers.  A constant
int literal or folded arithmetic intermediate whose exact value lies outside
the signed word range therefore behaves differently from the same expression
evaluated at run time (where it wraps) as soon as it feeds a non-ring
operation *that is itself evaluated at compile time*: a division, modulo or
comparison whose operands are all constant, the truth value of a constant
(a constant operand of and / or / not / is bool, a constant condition, a
constant argument of !truth_is_defeat), or a constant dynamic-array length.  An out-of-range
constant that only meets run-time operands (x / 65536, x < 70000, a[65536],
int g = 65536 + 1) ends up as an immediate or a data word, wraps there and is
*not* part of the finding (the compiled code agrees with run-time semantics;
checked on the pinned tree).  f4_pattern() says whether a program contains
such a compile-time consumption; the program-level checks exclude those
programs by construction (and count them), C14 examines them on purpose.
"""
from hast import *  # noqa


class _NotConst(Exception):
    pass


def _exact(e, env, ws, hits):
    """Exact (unbounded) value of constant expression e, or raise _NotConst."""
    lo = -(1 << (8 * ws - 1))
    hi = (1 << (8 * ws - 1)) - 1

    def note(v):
        # producing an out-of-range value is harmless by itself (ring operations commute with wrapping)
        return v

    def consume(v):
        # a compile-time non-ring operation looks at v: the finding applies if v is out of range
        if isinstance(v, int) and not isinstance(v, bool) and not (lo <= v <= hi):
            hits.append(v)
        return v

    if isinstance(e, Lit):
        if e.kind == 'int':
            return note(e.value)
        if e.kind == 'bool':
            return bool(e.value)
        return e.value
    if isinstance(e, Paren):
        return _exact(e.e, env, ws, hits)
    if isinstance(e, Var):
        if e.name in env and env[e.name] is not None:
            return env[e.name]
        raise _NotConst()
    if isinstance(e, Un):
        v = _exact(e.e, env, ws, hits)
        if e.op == 'not':
            return not _truthy(consume(v))
        if isinstance(v, bytes):
            raise _NotConst()
        return note(-int(v) if e.op == '-' else int(v))
    if isinstance(e, Is):
        v = _exact(e.e, env, ws, hits)
        if e.ty == BOOL:
            return _truthy(consume(v))
        if isinstance(v, bytes) or is_arr(e.ty):
            raise _NotConst()
        if e.ty == BYTE:
            return int(v) & 0xFF
        if e.ty == INT:
            return int(v)
        raise _NotConst()
    if isinstance(e, Spec):
        # a ?? of two constants is folded to its left operand
        l = _exact(e.l, env, ws, hits)
        _exact(e.r, env, ws, hits)
        return l
    if isinstance(e, Bin):
        if e.op in ('and', 'or'):
            l = consume(_exact(e.l, env, ws, hits))
            r = consume(_exact(e.r, env, ws, hits))
            return (_truthy(l) and _truthy(r)) if e.op == 'and' else (_truthy(l) or _truthy(r))
        l = _exact(e.l, env, ws, hits)
        r = _exact(e.r, env, ws, hits)
        if isinstance(l, bytes) or isinstance(r, bytes):
            raise _NotConst()
        l = int(l)
        r = int(r)
        if e.op == '+':
            return note(l + r)
        if e.op == '-':
            return note(l - r)
        if e.op == '*':
            return note(l * r)
        consume(l)
        consume(r)
        if e.op in ('/', '%'):
            if r == 0:
                hits.append('div0')
                raise _NotConst()
            return note(l // r if e.op == '/' else l % r)
        return {'==': l == r, '!=': l != r, '<': l < r, '<=': l <= r, '>': l > r, '>=': l >= r}[e.op]
    raise _NotConst()


def _truthy(v):
    if isinstance(v, bytes):
        return len(v) != 0
    return v != 0


def _scan_expr(e, env, ws, hits, truth=False):
    """Try to fold e as a whole; otherwise descend into sub-expressions.  truth: the value is consumed by a
    compile-time non-ring use (condition, !truth_is_defeat argument, dynamic array length)."""
    if e is None:
        return
    try:
        v = _exact(e, env, ws, hits)
        if truth and isinstance(v, int) and not isinstance(v, bool) and not (-(1 << (8 * ws - 1)) <= v < (1 << (8 * ws - 1))):
            hits.append(v)
        return
    except _NotConst:
        pass
    if isinstance(e, Call) and e.name == '!truth_is_defeat':
        for x in e.args:
            _scan_expr(x, env, ws, hits, truth=True)
        return
    # a constant operand of a logical operator or of `is bool` is converted to its truth value at compile time even when
    # the other operand is a run-time value (r and 65536)
    if isinstance(e, Bin) and e.op in ('and', 'or'):
        _scan_expr(e.l, env, ws, hits, truth=True)
        _scan_expr(e.r, env, ws, hits, truth=True)
        return
    if (isinstance(e, Un) and e.op == 'not') or (isinstance(e, Is) and e.ty == BOOL):
        _scan_expr(e.e, env, ws, hits, truth=True)
        return
    if isinstance(e, Paren) and truth:
        _scan_expr(e.e, env, ws, hits, truth=True)
        return
    for f in e.fields:
        v = getattr(e, f)
        if isinstance(v, Node):
            _scan_expr(v, env, ws, hits)
        elif isinstance(v, list):
            for x in v:
                if isinstance(x, Node):
                    _scan_expr(x, env, ws, hits)


def _scan_stmt(s, env, ws, hits):
    if isinstance(s, Block):
        inner = dict(env)
        for x in s.stmts:
            _scan_stmt(x, inner, ws, hits)
        return
    if isinstance(s, Decl):
        _scan_expr(s.init, env, ws, hits)
        val = None
        if s.const and not is_arr(s.ty):
            try:
                val = _exact(s.init, env, ws, [])
                if s.ty == BYTE and not isinstance(val, bytes):
                    val = int(val) & 0xFF
            except _NotConst:
                val = None
        env[s.name] = val
        return
    if isinstance(s, ArrDecl):
        _scan_expr(s.length, env, ws, hits, truth=True)
        env[s.name] = None
        return
    if isinstance(s, For):
        inner = dict(env)
        if s.init is not None:
            _scan_stmt(s.init, inner, ws, hits)
        _scan_expr(s.cond, inner, ws, hits, truth=True)
        if s.step is not None:
            _scan_stmt(s.step, inner, ws, hits)
        _scan_stmt(s.body, inner, ws, hits)
        return
    for f in s.fields:
        v = getattr(s, f)
        if isinstance(v, Node):
            if isinstance(v, (Block, If, While, For, Try, Preempt, Decl, ArrDecl, Assign, AugAssign, ExprStmt, Return)):
                _scan_stmt(v, env, ws, hits)
            else:
                _scan_expr(v, env, ws, hits, truth=(f == 'cond' and isinstance(s, (If, While))))
        elif isinstance(v, list):
            for x in v:
                if isinstance(x, Node):
                    _scan_expr(x, env, ws, hits)


def f4_hits(prog, ws):
    """-> list of out-of-range constant values (and 'div0' markers) found."""
    hits = []
    genv = {}
    for g in prog.globals:
        _scan_stmt(g, genv, ws, hits)
    for f in prog.funcs:
        env = dict(genv)
        for p in f.params:
            env[p.name] = None
        _scan_stmt(f.body, env, ws, hits)
    return hits


def f4_pattern(prog, ws):
    return any(h != 'div0' for h in f4_hits(prog, ws))


def const_div_by_zero(prog, ws):
    return 'div0' in f4_hits(prog, ws)
