"""Independent precedence-climbing expression parser over ref.lex tokens, from
the README operator table:

    unary + - not  >  is  >  * / %  >  + -  >  == != < <= > >=  >  and  >  or  >  ??

binary operators of equal precedence group to the left; postfix [i] and
.length bind tighter than any operator; `is` takes one type and does not
chain; `??` takes two `or`-level operands and does not chain.

Trees are nested tuples:
  ('int',v) ('char',v) ('str',b) ('bool',b) ('var',name) ('call',name,[args]) ('arr',[elems])
  ('un',op,e) ('bin',op,l,r) ('is',e,type) ('spec',l,r) ('idx',src,i) ('len',src)
"""
from . import lex as L

BIN_LEVELS = [
    ['or'],
    ['and'],
    ['==', '!=', '<', '<=', '>', '>='],
    ['+', '-'],
    ['*', '/', '%'],
]
TYPES = {'int', 'bool', 'byte', 'string'}


class RefParseError(Exception):
    pass


class P:
    def __init__(self, toks):
        self.toks = toks
        self.i = 0

    def peek(self):
        return self.toks[self.i] if self.i < len(self.toks) else None

    def at(self, kind, value=None):
        t = self.peek()
        return t is not None and t.kind == kind and (value is None or t.value == value)

    def op_here(self, ops):
        t = self.peek()
        if t is None:
            return None
        if t.kind in ('sym', 'kw') and t.value in ops:
            return t.value
        return None

    def eat(self, kind, value=None):
        if not self.at(kind, value):
            raise RefParseError('expected %s %r at token %d' % (kind, value, self.i))
        t = self.toks[self.i]
        self.i += 1
        return t

    def expr(self):
        left = self.binary(0)
        if self.at('sym', '??'):
            self.i += 1
            right = self.binary(0)
            if self.at('sym', '??'):
                raise RefParseError('?? does not chain')
            return ('spec', left, right)
        return left

    def binary(self, level):
        if level == len(BIN_LEVELS):
            return self.cast()
        left = self.binary(level + 1)
        while True:
            op = self.op_here(BIN_LEVELS[level])
            if op is None:
                return left
            self.i += 1
            right = self.binary(level + 1)
            left = ('bin', op, left, right)

    def cast(self):
        e = self.unary()
        if self.at('kw', 'is'):
            self.i += 1
            t = self.peek()
            if t is None or t.kind != 'kw' or t.value not in TYPES:
                raise RefParseError('expected type after is')
            self.i += 1
            ty = t.value
            if self.at('sym', '['):
                self.i += 1
                self.eat('sym', ']')
                ty += '[]'
            return ('is', e, ty)
        return e

    def unary(self):
        op = self.op_here(['+', '-', 'not'])
        if op is not None:
            self.i += 1
            return ('un', op, self.unary())
        return self.postfix()

    def postfix(self):
        e = self.primary()
        while True:
            if self.at('sym', '.'):
                self.i += 1
                t = self.peek()
                if t is None or t.kind != 'ident' or t.value != ('', 'length'):
                    raise RefParseError('expected length')
                self.i += 1
                e = ('len', e)
            elif self.at('sym', '['):
                self.i += 1
                idx = self.expr()
                self.eat('sym', ']')
                e = ('idx', e, idx)
            else:
                return e

    def args(self, close):
        out = []
        if self.at('sym', close):
            self.i += 1
            return out
        while True:
            out.append(self.expr())
            if self.at('sym', ','):
                self.i += 1
                continue
            self.eat('sym', close)
            return out

    def primary(self):
        t = self.peek()
        if t is None:
            raise RefParseError('unexpected end')
        if t.kind == 'sym' and t.value == '(':
            self.i += 1
            e = self.expr()
            self.eat('sym', ')')
            return e
        if t.kind == 'int':
            self.i += 1
            return ('int', t.value)
        if t.kind == 'char':
            self.i += 1
            return ('char', t.value)
        if t.kind == 'string':
            self.i += 1
            return ('str', t.value)
        if t.kind == 'kw' and t.value in ('true', 'false'):
            self.i += 1
            return ('bool', t.value == 'true')
        if t.kind == 'sym' and t.value == '[':
            self.i += 1
            return ('arr', self.args(']'))
        if t.kind == 'ident':
            self.i += 1
            name = t.value[0] + t.value[1]
            if self.at('sym', '('):
                self.i += 1
                return ('call', name, self.args(')'))
            if t.value[0]:
                raise RefParseError('flavoured identifier is not a variable')
            return ('var', name)
        raise RefParseError('unexpected token %r' % (t,))


def parse_expr(text):
    toks = L.lex(text)
    p = P(toks)
    e = p.expr()
    if p.i != len(toks):
        raise RefParseError('trailing tokens')
    return e
