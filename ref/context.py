"""Independent checker of the flavour/context rules, from README "Summary of
what's allowed in different blocks" and the C06 property statement.

A placement is (flavour, [context elements...], leaf).  State while walking
the chain inwards:
   calls : set of callable flavours  ('' ordinary, '@' you, '!' defeat)
   you   : try blocks and ?? allowed (you-function outside any try body)
   defeat: preempt allowed (try body or defeat function)
   loop  : break/continue allowed
"""


class Ctx:
    __slots__ = ('calls', 'you', 'defeat', 'loop')

    def __init__(self, calls, you, defeat, loop):
        self.calls = frozenset(calls)
        self.you = you
        self.defeat = defeat
        self.loop = loop

    def copy(self, **kw):
        c = Ctx(self.calls, self.you, self.defeat, self.loop)
        for k, v in kw.items():
            setattr(c, k, frozenset(v) if k == 'calls' else v)
        return c


def function_ctx(flavor):
    if flavor == '@':
        return Ctx({'', '@'}, True, False, False)
    if flavor == '!':
        return Ctx({'', '!'}, False, True, False)
    if flavor == '':
        return Ctx({''}, False, False, False)
    if flavor == 'global':
        return Ctx(set(), False, False, False)
    raise ValueError(flavor)


def enter(ctx, element):
    """-> new context, or None if the element itself is not allowed in ctx."""
    if element in ('block', 'if_body', 'else_body', 'paren', 'call_arg', 'array_elem', 'index', 'unary', 'not',
                   'bin_left', 'bin_right', 'is_operand', 'length_of', 'cond_if', 'cond_while', 'for_init', 'for_cond',
                   'for_step', 'return_value', 'assign_rhs', 'decl_init', 'vla_length', 'expr_stmt', 'index_rhs',
                   'index_target', 'compound_rhs', 'global_init', 'global_vla'):
        if element == 'call_arg' and '' not in ctx.calls:
            return None     # the enclosing ordinary call f(...) is itself a call
        return ctx
    if element in ('while_body', 'for_body'):
        return ctx.copy(loop=True)
    if element in ('try_undo_body', 'try_stop_body'):
        if not ctx.you:
            return None
        return ctx.copy(calls={'', '!'}, you=False, defeat=True)
    if element in ('undo_handler', 'stop_handler'):
        if not ctx.you:
            return None
        return ctx
    if element == 'preempt_body':
        if not ctx.defeat:
            return None
        return ctx
    if element in ('spec_left', 'spec_right'):
        if not ctx.you:
            return None
        return ctx.copy(calls={''}, you=False, defeat=False)
    raise ValueError(element)


def leaf_ok(ctx, leaf):
    if leaf in ('neutral_expr', 'neutral_stmt', 'return'):
        return True
    if leaf == 'call_ordinary':
        return '' in ctx.calls
    if leaf == 'call_you':
        return '@' in ctx.calls
    if leaf in ('call_defeat', 'is_defeat'):
        return '!' in ctx.calls
    if leaf == 'spec':
        return ctx.you
    if leaf in ('try_undo', 'try_stop'):
        return ctx.you
    if leaf == 'preempt':
        return ctx.defeat
    if leaf in ('break', 'continue'):
        return ctx.loop
    raise ValueError(leaf)


def accepted(flavor, chain, leaf):
    ctx = function_ctx(flavor)
    for el in chain:
        ctx = enter(ctx, el)
        if ctx is None:
            return False
    return leaf_ok(ctx, leaf)
