"""Independent typechecker over hast (DESIGN.md 2.3), implementing the documented
rules (README "Types", "Arrays and strings", "Standard library", the cast
table; the C07 property statement; accept/reject decisions of tests/ read as
documentation).  check_program() annotates every expression with its static
type (.t) and raises RefTypeError(rule, message) on the first violation.

It does not implement exit analysis ("Missing return statement") - that is
C16's subject - nor the flavour/context rules (C06).
"""
from hast import *  # noqa

NUM = (INT, BYTE)


class RefTypeError(Exception):
    def __init__(self, rule, msg):
        super().__init__('%s: %s' % (rule, msg))
        self.rule = rule


BUILTINS = [
    ('!is_defeat', (), EMPTY), ('!truth_is_defeat', (BOOL,), EMPTY),
    ('write', (STRING,), EMPTY), ('write', (arr(BYTE, True),), EMPTY), ('write', (INT,), EMPTY),
    ('write', (BYTE,), EMPTY), ('write', (BOOL,), EMPTY),
    ('writeln', (STRING,), EMPTY), ('writeln', (arr(BYTE, True),), EMPTY), ('writeln', (INT,), EMPTY),
    ('writeln', (BYTE,), EMPTY), ('writeln', (BOOL,), EMPTY), ('writeln', (), EMPTY),
    ('all_is_win', (), EMPTY), ('all_is_broken', (), EMPTY), ('sleep', (INT,), EMPTY),
    ('debug', (), EMPTY), ('progress', (), EMPTY),
]


class VarEntry:
    __slots__ = ('ty', 'const', 'is_global', 'subst')

    def __init__(self, ty, const, is_global, subst=None):
        self.ty = ty
        self.const = const
        self.is_global = is_global
        self.subst = subst      # for const scalars with a literal initialiser: ('int'|'byte'|'bool'|'string')


class Checker:
    def __init__(self, prog):
        self.prog = prog
        self.funcs = {}     # name -> list of (param types tuple, ret, index)
        self.globals = {}
        self.scopes = []
        self.ret = None
        self.calls = []     # (Call node, chosen overload index in declaration order) for every resolved call
        self.locked = set()  # ids of array literals whose element type was fixed by `is T[]`
        self.sites = []      # (block, index, visible vars {name: VarEntry}, return type, function) for mutation tools
        self.cur_func = None

    # -- driver ---------------------------------------------------------------
    def check(self):
        for name, pts, ret in BUILTINS:
            self.funcs.setdefault(name, []).append((tuple(pts), ret, None))
        for i, f in enumerate(self.prog.funcs):
            sig = tuple(p.ty for p in f.params)
            for pts, _, _ in self.funcs.get(f.name, []):
                if pts == sig:
                    raise RefTypeError('duplicate_signature', '%s%r' % (f.name, sig))
            self.funcs.setdefault(f.name, []).append((sig, f.ret, i))
        self.scopes = []
        for g in self.prog.globals:
            self.stmt(g)
        for f in self.prog.funcs:
            self.func(f)
        return self

    def func(self, f):
        self.scopes = [{}]
        self.ret = f.ret
        self.cur_func = f
        for p in f.params:
            if p.name in self.scopes[0]:
                raise RefTypeError('redeclared', 'duplicate parameter ' + p.name)
            self.scopes[0][p.name] = VarEntry(p.ty, p.const or is_arr(p.ty), False)
        self.block(f.body, new_scope=True)
        self.scopes = []
        self.ret = None

    # -- environment ----------------------------------------------------------
    def lookup(self, name):
        for s in reversed(self.scopes):
            if name in s:
                return s[name]
        if name in self.globals:
            return self.globals[name]
        return None

    def declare(self, name, entry):
        if not self.scopes:
            if name in self.globals:
                raise RefTypeError('redeclared', 'global ' + name)
            self.globals[name] = entry
            return
        for s in self.scopes:
            if name in s:
                raise RefTypeError('redeclared', 'local %s redeclared / shadows a local' % name)
        self.scopes[-1][name] = entry

    # -- statements -------------------------------------------------------------
    def visible(self):
        out = dict(self.globals)
        for sc in self.scopes:
            out.update(sc)
        return out

    def block(self, b, new_scope=True):
        if new_scope:
            self.scopes.append({})
        for i, s in enumerate(b.stmts):
            self.sites.append((b, i, self.visible(), self.ret, self.cur_func))
            self.stmt(s)
        self.sites.append((b, len(b.stmts), self.visible(), self.ret, self.cur_func))
        if new_scope:
            self.scopes.pop()

    def body(self, s):
        if isinstance(s, Block):
            self.block(s)
        else:
            self.stmt(s)

    def stmt(self, s):
        if isinstance(s, Decl):
            if self.lookup(s.name) is not None and (not self.scopes or any(s.name in sc for sc in self.scopes)):
                raise RefTypeError('redeclared', s.name)
            self.expr(s.init)
            self.coerce(s.init, s.ty, 'declaration of ' + s.name, in_call=False)
            subst = None
            if not is_arr(s.ty) and s.const and self.is_literal_const(s.init):
                subst = s.ty
            self.declare(s.name, VarEntry(s.ty, s.const or is_arr(s.ty), not self.scopes, subst))
        elif isinstance(s, ArrDecl):
            if self.lookup(s.name) is not None and (not self.scopes or any(s.name in sc for sc in self.scopes)):
                raise RefTypeError('redeclared', s.name)
            self.expr(s.length)
            self.coerce(s.length, INT, 'array length')
            if s.t == 'const':
                raise RefTypeError('const_array_initializer', 'const %s %s[...]' % (s.el, s.name))
            self.declare(s.name, VarEntry(arr(s.el, False), True, not self.scopes))
        elif isinstance(s, Assign):
            self.expr(s.target)
            self.assignable(s.target)
            self.expr(s.e)
            self.coerce(s.e, s.target.t, 'assignment')
        elif isinstance(s, AugAssign):
            self.expr(s.target)
            self.assignable(s.target)
            self.expr(s.e)
            # typed like  target = target op e
            tt = s.target.t
            if tt not in NUM:
                raise RefTypeError('operand_type', 'compound assignment to %s' % type_src(tt))
            if not self.coercible(s.e, INT):
                raise RefTypeError('operand_type', 'compound assignment with %s' % type_src(s.e.t))
            if tt == BYTE and not self.coercible(s.e, BYTE):
                raise RefTypeError('narrowing', 'int result of compound assignment into byte')
        elif isinstance(s, ExprStmt):
            self.expr(s.e)
        elif isinstance(s, Return):
            if s.e is None:
                if self.ret != EMPTY:
                    raise RefTypeError('return_missing_value', 'return; in %s function' % self.ret)
            else:
                if self.ret == EMPTY:
                    raise RefTypeError('return_superfluous_value', 'value returned from empty function')
                self.expr(s.e)
                self.coerce(s.e, self.ret, 'return')
        elif isinstance(s, (Break, Continue)):
            pass
        elif isinstance(s, Block):
            self.block(s)
        elif isinstance(s, If):
            self.cond(s.cond)
            self.body(s.then)
            if s.els is not None:
                self.body(s.els)
        elif isinstance(s, While):
            self.cond(s.cond)
            self.body(s.body)
        elif isinstance(s, For):
            self.scopes.append({})
            if s.init is not None:
                self.stmt(s.init)
            # the typechecker visits the body before the condition and the step; keep declaration order sane
            self.body(s.body)
            if s.cond is not None:
                self.cond(s.cond)
            if s.step is not None:
                self.stmt(s.step)
            self.scopes.pop()
        elif isinstance(s, Try):
            self.body(s.body)
            self.body(s.handler)
        elif isinstance(s, Preempt):
            self.body(s.body)
        else:
            raise TypeError('ref.types: unknown statement %r' % (s,))

    def cond(self, e):
        self.expr(e)
        self.castable_to_bool(e)

    def assignable(self, target):
        if isinstance(target, Var):
            v = self.lookup(target.name)
            if v.const:
                raise RefTypeError('assign_const', 'assignment to const/array variable ' + target.name)
            return
        if isinstance(target, Index):
            st_ = self.unparen(target.src).t
            if st_ == STRING:
                raise RefTypeError('assign_string_element', 'assignment to string element')
            if st_[2]:
                raise RefTypeError('assign_const_element', 'assignment to element of const array')
            return
        raise RefTypeError('not_assignable', repr(target))

    # -- expressions ---------------------------------------------------------------
    @staticmethod
    def unparen(e):
        while isinstance(e, Paren):
            e = e.e
        return e

    def is_literal_const(self, e):
        """Does hidc substitute a const variable initialised with e by its value?  (value known at compile time)"""
        e = self.unparen(e)
        if isinstance(e, Lit):
            return True
        if isinstance(e, Var):
            v = self.lookup(e.name)
            return v is not None and v.subst is not None
        if isinstance(e, Un):
            return self.is_literal_const(e.e)
        if isinstance(e, Bin):
            return self.is_literal_const(e.l) and self.is_literal_const(e.r)
        if isinstance(e, Is):
            return not is_arr(e.ty) and self.is_literal_const(e.e) and self.unparen(e.e).t != STRING or \
                (e.ty == BOOL and self.is_literal_const(e.e))
        return False

    def shrinkable(self, e):
        """int-typed expression implicitly coercible to byte (README: literals; arithmetic whose operands all are)."""
        e = self.unparen(e)
        if e.t == BYTE:
            return True
        if e.t != INT:
            return False
        if isinstance(e, Lit):
            return e.kind == 'int'
        if isinstance(e, Bin) and e.op in ('+', '-', '*', '/', '%'):
            return self.shrinkable(e.l) and self.shrinkable(e.r)
        if isinstance(e, Un) and e.op in ('+', '-'):
            return self.shrinkable(e.e)
        return False

    def coercible(self, e, ty, in_call=False):
        e0 = self.unparen(e)
        t = e0.t
        if isinstance(e0, ArrLit) and is_arr(ty):
            if id(e0) in self.locked:
                return t[1] == ty[1]
            return all(self.coercible(x, ty[1]) for x in e0.elems)
        if t == ty:
            return True
        if t == BYTE and ty == INT:
            return True
        if t == STRING and ty == arr(BYTE, True):
            return True
        if is_arr(t) and is_arr(ty) and t[1] == ty[1] and ty[2] and not t[2]:
            return True         # mutable -> const (legal in calls; declarations reject it separately)
        if t == INT and ty == BYTE:
            return self.shrinkable(e0)
        return False

    def coerce(self, e, ty, what, in_call=False):
        e0 = self.unparen(e)
        if not self.coercible(e, ty, in_call):
            rule = 'type_mismatch'
            if e0.t == INT and ty == BYTE:
                rule = 'narrowing'
            elif is_arr(e0.t) and is_arr(ty) and e0.t[1] == ty[1]:
                rule = 'const_array_to_mutable'
            raise RefTypeError(rule, '%s: %s is not %s' % (what, type_src(e0.t), type_src(ty)))
        if not in_call and is_arr(ty) and is_arr(e0.t) and not isinstance(e0, ArrLit) and ty[2] and not e0.t[2]:
            raise RefTypeError('const_binding_of_mutable', '%s: const array variable bound to a mutable array' % what)
        if isinstance(e0, ArrLit) and is_arr(ty):
            e0.t = ty
            for x in e0.elems:
                pass

    def castable_to_bool(self, e):
        t = self.unparen(e).t
        if t in (INT, BYTE, BOOL, STRING) or is_arr(t):
            return
        raise RefTypeError('invalid_cast', '%s is not bool' % type_src(t))

    def expr(self, e):
        """Annotate e.t; returns the type."""
        if isinstance(e, Lit):
            e.t = {'int': INT, 'char': BYTE, 'bool': BOOL, 'string': STRING}[e.kind]
        elif isinstance(e, Paren):
            e.t = self.expr(e.e)
        elif isinstance(e, Var):
            v = self.lookup(e.name)
            if v is None:
                raise RefTypeError('undeclared_variable', e.name)
            e.t = v.ty
        elif isinstance(e, Un):
            t = self.expr(e.e)
            if e.op == 'not':
                self.castable_to_bool(e.e)
                e.t = BOOL
            else:
                if not self.coercible(e.e, INT):
                    raise RefTypeError('operand_type', 'unary %s on %s' % (e.op, type_src(t)))
                e.t = INT
        elif isinstance(e, Bin):
            lt = self.expr(e.l)
            rt = self.expr(e.r)
            if e.op in ('and', 'or'):
                self.castable_to_bool(e.l)
                self.castable_to_bool(e.r)
                e.t = BOOL
            elif e.op in ('==', '!='):
                if not (lt == BOOL and rt == BOOL):
                    if not (self.coercible(e.l, INT) and self.coercible(e.r, INT)):
                        raise RefTypeError('operand_type', '%s %s %s' % (type_src(lt), e.op, type_src(rt)))
                e.t = BOOL
            elif e.op in ('<', '<=', '>', '>='):
                if not (self.coercible(e.l, INT) and self.coercible(e.r, INT)):
                    raise RefTypeError('operand_type', '%s %s %s' % (type_src(lt), e.op, type_src(rt)))
                e.t = BOOL
            else:
                if not (self.coercible(e.l, INT) and self.coercible(e.r, INT)):
                    raise RefTypeError('operand_type', '%s %s %s' % (type_src(lt), e.op, type_src(rt)))
                e.t = INT
        elif isinstance(e, Is):
            t = self.expr(e.e)
            e.t = self.cast(e.e, t, e.ty)
        elif isinstance(e, Spec):
            lt = self.expr(e.l)
            self.expr(e.r)
            if lt not in (INT, BYTE, BOOL):
                raise RefTypeError('operand_type', 'speculation on %s' % type_src(lt))
            self.coerce(e.r, lt, 'right operand of ??')
            e.t = lt
        elif isinstance(e, Index):
            st_ = self.expr(e.src)
            self.expr(e.idx)
            src0 = self.unparen(e.src)
            if st_ == STRING:
                e.t = BYTE
            elif is_arr(st_):
                if isinstance(src0, ArrLit) and st_[1] == EMPTY:
                    raise RefTypeError('ambiguous_array', 'indexing []')
                e.t = st_[1]
            else:
                raise RefTypeError('not_indexable', type_src(st_))
            self.coerce(e.idx, INT, 'index')
        elif isinstance(e, Len):
            st_ = self.expr(e.src)
            if not (st_ == STRING or is_arr(st_)):
                raise RefTypeError('not_indexable', '.length of %s' % type_src(st_))
            e.t = INT
        elif isinstance(e, ArrLit):
            ts = [self.expr(x) for x in e.elems]
            for x, t in zip(e.elems, ts):
                if is_arr(t):
                    raise RefTypeError('nested_array', 'array inside array literal')
                if t == EMPTY:
                    raise RefTypeError('empty_element', 'array of empty')
            if not e.elems:
                e.t = arr(EMPTY, True)
            else:
                seen = []
                for t in ts:
                    if t not in seen:
                        seen.append(t)
                for t in seen:
                    if all(self.coercible(x, t) for x in e.elems):
                        e.t = arr(t, True)
                        break
                else:
                    raise RefTypeError('unresolvable_array', 'no common element type')
        elif isinstance(e, Call):
            for a in e.args:
                self.expr(a)
            e.t = self.resolve(e)
        else:
            raise TypeError('ref.types: unknown expression %r' % (e,))
        return e.t

    def cast(self, e, t, ty):
        e0 = self.unparen(e)
        if t == ty:
            return ty
        if ty == INT and t in (BYTE, BOOL):
            return INT
        if ty == BYTE and t in (INT, BOOL):
            return BYTE
        if ty == BOOL and (t in (INT, BYTE, STRING) or is_arr(t)):
            return BOOL
        if is_arr(ty):
            if t == STRING and ty[1] == BYTE:
                return arr(BYTE, True)
            if isinstance(e0, ArrLit):
                for x in e0.elems:
                    xt = self.unparen(x).t
                    try:
                        self.cast(x, xt, ty[1])
                    except RefTypeError:
                        raise RefTypeError('invalid_cast', 'array literal element %s is not %s' % (type_src(xt), ty[1]))
                self.locked.add(id(e0))
                e0.t = arr(ty[1], True)
                return arr(ty[1], True)
            if is_arr(t) and t[1] == ty[1]:
                return arr(ty[1], True) if True else t
        raise RefTypeError('invalid_cast', '%s is not %s' % (type_src(t), type_src(ty)))

    def resolve(self, call):
        cands = self.funcs.get(call.name)
        if not cands:
            raise RefTypeError('undeclared_function', call.name)
        ats = []
        for a in call.args:
            a0 = self.unparen(a)
            ats.append(a0.t)
        for k, (pts, ret, idx) in enumerate(cands):
            if len(pts) == len(ats) and all(p == a for p, a in zip(pts, ats)):
                self.finish_call(call, pts)
                self.calls.append((call, idx, k))
                return ret
        for k, (pts, ret, idx) in enumerate(cands):
            if len(pts) == len(ats) and all(self.coercible(a, p, in_call=True) for a, p in zip(call.args, pts)):
                self.finish_call(call, pts)
                self.calls.append((call, idx, k))
                return ret
        if not any(len(pts) == len(ats) for pts, _, _ in cands):
            raise RefTypeError('wrong_arity', '%s with %d arguments' % (call.name, len(ats)))
        raise RefTypeError('wrong_argument_type', '%s(%s)' % (call.name, ', '.join(type_src(t) for t in ats)))

    def finish_call(self, call, pts):
        for a, p in zip(call.args, pts):
            a0 = self.unparen(a)
            if isinstance(a0, ArrLit) and is_arr(p):
                a0.t = p


def check_program(prog):
    return Checker(prog).check()
