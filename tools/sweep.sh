#!/bin/bash
# tools/sweep.sh <seed>...  : run every quick check at the given VERIF_SEED values on the current tree, writing
# evidence/replays to a scratch directory; prints one line per (check, seed).  Used to look for false alarms.
cd "$(dirname "$0")/.."
OUT=${SWEEP_OUT:-/tmp/sv/sweep}
mkdir -p "$OUT"
for seed in "$@"; do
  for c in C01 C02 C03 C04 C05 C06 C07 C08 C09 C10 C11 C12 C13 C14 C15 C16 C17 C18; do
    VERIF_SEED=$seed VERIF_OUTDIR=$OUT/s$seed ./check.py $c > $OUT/$c.$seed.log 2>&1
    echo "seed=$seed $c exit=$? $(grep -c '^VIOLATION' $OUT/$c.$seed.log) $(grep 'tier=quick' $OUT/$c.$seed.log | cut -c1-110)"
  done
done
