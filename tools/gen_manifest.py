#!/usr/bin/env python3
"""Regenerate MANIFEST.json from the table below (keeps it schema-valid)."""
import json
import os

HERE = os.path.dirname(os.path.dirname(os.path.abspath(__file__)))

TRUST = ('Trusted base: the verification Sphinx VM in /verif/svm (ISA reading calibrated against upstream '
         'tests/test_codegen.py, README outputs and stdlib.py; floored div/mod assumed), the reference models in '
         '/verif/ref (reading of README.rst and the property text), Python and Hypothesis. Exploration only: '
         'nothing is proved; bounds are in the evidence file.')

# id -> (technique, level text, design ref)
CHECKS = {
    'C17': ('exhaustive enumeration (all 16-bit ints, all bytes) + Hypothesis-generated values/arrays vs Python '
            'str()/bytes oracle, canaries, S_min search',
            'All 65536 16-bit values and all 256 bytes are enumerated; wider words, array contents, storage forms '
            'and stack sizes are sampled with Hypothesis. Right level: the domain at 16 bit is finite and small, the '
            'rest is a cheap differential against an obviously-correct oracle.', '3/C17'),
}

CHECKS.update({
    'C01': ('Hypothesis composite program generator + a fixed family of scale programs (many locals / parameters / constants / functions / branches / elements); differential: hidc+VM event stream vs source-level reference interpreter',
            'Generated-input search over well-typed sequential programs x argv x word size x {generous, minimal} stack, '
            'oracle = independent reference interpreter. Right level: the property quantifies over all programs; a '
            'differential against an executable semantics is the strongest decidable check available here.', '3/C01'),
    'C02': ('Hypothesis composite program generator with time-travel constructs; differential vs prophecy reference interpreter (choice-script re-execution)',
            'Generated-input search over programs with try/undo/stop, preempt, ??, (preemptive/recursive) defeat functions and '
            'several try blocks per run; oracle = reference interpreter resolving choice points by backtracking.', '3/C02'),
})

CHECKS.update({
    'C03': ('Hypothesis program generator (all flavours/control flow, checked + unchecked builds); invariant on the VM outcome: never a committed halt',
            'Generated-input search; the oracle is an invariant of the execution (no halt with an empty choice stack), decided '
            'exactly per run by the backtracking VM with state-cycle detection.', '3/C03'),
    'C09': ('exhaustive boundary-grid enumeration of operator x operand types x operand pairs x usage position (value, recast, branch, loop condition, defeat argument, byte-array store index, dynamic array length) x word size vs harness arithmetic',
            'The listed domain (operators x boundary grid x positions x word sizes) is finite and enumerated completely on '
            'every run; random extra operands widen it in the thorough tier.', '3/C09'),
    'C13': ('enumeration of all single bytes / byte pairs / char literals (escaped and raw spellings) + Hypothesis byte strings, raw Unicode text and constant arrays, the same bytes as string content / char immediates / const byte[] elements in one program in both render orders; static data-section and dynamic print/index/length oracles',
            'Single bytes and char literals exhaustively, pairs exhaustively in the thorough tier; longer strings and arrays '
            'sampled. The assembler acceptance and byte-exact round trip are cheap, exact oracles.', '3/C13'),
    'C14': ('Hypothesis constant-expression trees and array literals of constant expressions with de-constified twins; differential VM output vs run-time reference semantics',
            'Metamorphic/differential search over constant expressions and their run-time twins (any subset of leaves '
            'de-constified), oracle = reference interpreter with run-time semantics.', '3/C14'),
    'C15': ('Hypothesis program generator + enumerated operator grid (every arithmetic/comparison/compound operator between run-time operands and boundary literals of each word size); differential checked vs unchecked build on the VM for fault-free runs',
            'Differential between the two builds of the same program on the same VM; no model needed.', '3/C15'),
    'C18': ('metamorphic: byte-identical builds across processes/hash seeds/interpreter optimisation levels, event streams equal across stack sizes, word sizes (when values fit) and lint',
            'Metamorphic relations over configurations on generated programs and the example corpus.', '3/C18'),
})

CHECKS.update({
    'C06': ('exhaustive enumeration of construct placements (flavour x context chain x leaf) + Hypothesis deeper chains vs independent context checker',
            'All placements with chains up to length 3 (quick) / 4 (thorough) are enumerated; deeper chains sampled. The '
            'oracle is a 100-line independent implementation of the README context table; both directions are compared.', '3/C06'),
    'C10': ('Hypothesis text / token-soup / token-mutation / ill-formed-program / label-like-identifier program fuzzing of the whole pipeline and the CLI (thorough tier adds atheris/libFuzzer coverage-guided campaigns with the oracle in the target); crash, span, render, assemble and file-contract oracles',
            'Fuzzing with structural generators; the oracle is the totality contract itself (only CompilerError, located, '
            'renderable; output assembles; CLI exit/file behaviour).', '3/C10'),
    'C11': ('exhaustive operator pairs/triples with decorations + Hypothesis random trees; round trip print(min parens)->parse and independent precedence-climbing parser',
            'Pairs and triples of all binary operators in every tree shape are enumerated; deeper trees sampled. Round-trip '
            'and an independent parser are exact oracles for grouping.', '3/C11'),
    'C12': ('Hypothesis token-spelling/layout generation, raw text, flavoured-identifier twins and huge token-free gaps (thorough tier adds atheris/libFuzzer coverage-guided campaigns); differential vs independent reference tokenizer; layout metamorphosis on tokens and emitted instructions',
            'Differential against a hand-written tokenizer on generated spellings and layouts, plus a metamorphic relation '
            '(re-layout never changes tokens or code).', '3/C12'),
})

CHECKS.update({
    'C04': ('Hypothesis program generator x stack-size sweep around the minimal stack size; replay monitor judging every load/store/jump of the committed path; differential + prefix rule below S_min',
            'Generated-input search with a run-time invariant monitor on the VM (per-access entitlement: frame window, live '
            'array extents tracked from ap, globals, protected words, jump targets) at every stack size from S_min+2 down to '
            'S_min-3, plus the differential oracle.', '3/C04'),
    'C05': ('grid enumeration of fault probes (kind x element type x storage x access form x operand expression form x boundary operand x word size) vs reference interpreter; replay monitor for "no effect before the fault"',
            'The probe grid is enumerated (quick: all boundary-adjacent operands + a seeded quarter of the rest; thorough: '
            'complete); the reference decides which fault occurs, the VM event stream must match exactly.', '3/C05'),
    'C07': ('Hypothesis well-typed program generator + single-rule statement mutants; differential accept/reject vs independent typechecker; overload identity via output',
            'Differential against an independent implementation of the documented typing rules in both directions, on '
            'well-typed programs and on mutants placed at reachable sites.', '3/C07'),
    'C08': ('Hypothesis program generator (arrays in nested scopes, every exit route) + ScopeHistory RuleBasedStateMachine (loop iterations leaving by scheduled routes, n/3n footprint twins); replay monitor on (fp, ap) at calls, loop instances and try/stop; entitlement monitor; differential at S_min and on the --unchecked build',
            'Generated-input search with run-time invariants sampled on the committed path at the labels hidc emits, plus '
            'differential output at the minimal stack size.', '3/C08'),
    'C16': ('Hypothesis control-flow body generator; fall-through monitor + tell-tale + differential; reference witness for "completes without returning"; structural acceptance rule',
            'Generated-input search over function bodies; the witness rule and the fall-through monitor are exact per run, '
            'acceptance is only demanded for documented shapes.', '3/C16'),
})

NOT_YET = {}


def main():
    props = [json.loads(l) for l in open(os.path.join(HERE, 'properties.jsonl'))]
    checks = []
    na = []
    for p in props:
        pid = p['id']
        if pid in CHECKS and os.path.exists(os.path.join(HERE, 'props', pid + '.py')):
            tech, text, ref = CHECKS[pid]
            checks.append({
                'property_id': pid,
                'quick_cmd': './check.py %s --tier quick' % pid,
                'thorough_cmd': './check.py %s --tier thorough' % pid,
                'evidence_file': 'evidence/%s.json' % pid,
                'replay_cmd_template': './check.py %s --replay {path}' % pid,
                'engine': 'hidc-pbt',
                'level_claimed': {'category': 'exploration', 'text': text, 'design_ref': 'DESIGN.md ' + ref},
                'level_note': TRUST,
                'technique': tech,
            })
        else:
            na.append({'property_id': pid,
                       'reason': NOT_YET.get(pid, 'check not built yet in this round (planned, see DESIGN.md section 3); '
                                                  'not a limitation of the technique')})
    man = {
        'version': 1,
        'setup_cmd': './setup.sh',
        'hooks': {
            'guard': 'HIDC_VERIF',
            'enable': 'no hooks: checks import hidc from /repo (HIDC_REPO) as it is; HIDC_VERIF is reserved and unused',
            'baseline_off_cmd': 'cd /repo && /venv/bin/python -m pytest -q -p no:cacheprovider tests/test_lexer.py tests/test_parser.py tests/test_typecheck.py',
            'source_commits': [],
            'add_only': True,
        },
        'engines': [{
            'name': 'hidc-pbt', 'path': 'check.py',
            'serves_properties': [c['property_id'] for c in checks],
            'kind_free_text': 'Hypothesis / exhaustive-enumeration property checks over the hidc compiler, executing '
                              'emitted Sphinx assembly on an own backtracking VM (svm/) against reference models (ref/)',
        }],
        'checks': checks,
        'not_applicable': na,
        'notes': 'Run with /venv/bin/python; VERIF_SEED selects the Hypothesis seed; VERIF_JOBS the process count '
                 '(default 16). Exit 0 = held, 1 = VIOLATION line, 2 = harness error / starvation (never a violation).',
    }
    if not na:
        del man['not_applicable']
    with open(os.path.join(HERE, 'MANIFEST.json'), 'w') as f:
        json.dump(man, f, indent=1)
    print('MANIFEST.json: %d checks, %d not_applicable' % (len(checks), len(na)))


if __name__ == '__main__':
    main()
