#!/venv/bin/python
"""Compile a batch of sources in this process; print one sha256 (or ERR:...) per item.
Used by C18 to compare builds across processes / hash seeds.  argv[1]: json file."""
import hashlib
import json
import os
import sys

sys.path.insert(0, os.path.dirname(os.path.dirname(os.path.abspath(__file__))))
from harness import hidc_driver as H  # noqa


def main():
    items = json.load(open(sys.argv[1]))
    out = []
    for it in items:
        try:
            lines = H.compile_source(it['src'], it['ws'], it['S'], it['unchecked'], unreachable_error=it.get('lint', False))
            out.append(hashlib.sha256(b'\n'.join(lines)).hexdigest())
        except H.CompilerError as e:
            out.append('ERR:%s:%s' % (type(e).__name__, e))
        except Exception as e:  # noqa
            out.append('CRASH:%s:%s' % (type(e).__name__, e))
    json.dump(out, sys.stdout)


if __name__ == '__main__':
    from harness.runner import _bigframe
    _bigframe(main)
