#!/bin/bash
# Verify a seeded change and run checks against it in a scratch worktree.
#   tools/seedcheck.sh <seed-dir> verify            -> applies patch, runs the 45 tests + demo (with / without patch)
#   tools/seedcheck.sh <seed-dir> check C01 [C03..] -> runs the given quick checks with HIDC_REPO=<worktree>
# The worktree lives under /tmp/sv and is removed at the end.  /repo is never modified.
set -u
SEED=$(realpath "$1"); MODE=$2; shift 2
NAME=$(basename "$SEED")
WT=/tmp/sv/$NAME.$$
mkdir -p /tmp/sv
git -C /repo worktree add -q --detach "$WT" HEAD || exit 2
cleanup() { git -C /repo worktree remove --force "$WT" 2>/dev/null; rm -rf "$WT"; }
trap cleanup EXIT
DEMO=$(ls "$SEED"/demo.py "$SEED"/demo.* 2>/dev/null | head -1)
if [ "$MODE" = verify ]; then
  ( cd "$WT" && PYTHONPATH="$WT" timeout 120 /venv/bin/python "$DEMO" >/tmp/sv/$NAME.clean.out 2>&1 ); echo "demo on clean tree: exit $?"
fi
if ! git -C "$WT" apply "$SEED/patch.diff" 2>/tmp/sv/$NAME.apply.err; then
  if ! git -C "$WT" apply --3way "$SEED/patch.diff" 2>>/tmp/sv/$NAME.apply.err; then
    echo "PATCH DOES NOT APPLY"; cat /tmp/sv/$NAME.apply.err | head -5; exit 3
  fi
fi
if [ "$MODE" = verify ]; then
  ( cd "$WT" && /venv/bin/python -m pytest -q -p no:cacheprovider tests/test_lexer.py tests/test_parser.py tests/test_typecheck.py 2>&1 | tail -1 )
  ( cd "$WT" && PYTHONPATH="$WT" timeout 120 /venv/bin/python "$DEMO" >/tmp/sv/$NAME.patched.out 2>&1 ); echo "demo on patched tree: exit $?"
  tail -3 /tmp/sv/$NAME.patched.out
else
  for C in "$@"; do
    OUT=/tmp/sv/$NAME.$C.out
    ( cd /verif && HIDC_REPO="$WT" VERIF_OUTDIR=/tmp/sv/out.$NAME timeout 1500 ./check.py $C --tier quick >"$OUT" 2>&1 ); rc=$?
    echo "$NAME $C exit=$rc $(grep -c '^VIOLATION' "$OUT") violation lines; $(grep -m1 'tier=quick' "$OUT")"
  done
fi
