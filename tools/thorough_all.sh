#!/bin/bash
# tools/thorough_all.sh [IDs...] : run the thorough tier of the given (default: all) checks one after another on the current tree;
# evidence/replays go to a scratch directory; one summary line per check.
cd "$(dirname "$0")/.."
OUT=${THOROUGH_OUT:-/tmp/sv/thorough}
mkdir -p "$OUT"
IDS=${@:-C01 C02 C03 C04 C05 C06 C07 C08 C09 C10 C11 C12 C13 C14 C15 C16 C17 C18}
for c in $IDS; do
  start=$(date +%s)
  VERIF_OUTDIR=$OUT ./check.py $c --tier thorough > $OUT/$c.log 2>&1
  rc=$?
  echo "$c exit=$rc $(grep -c '^VIOLATION' $OUT/$c.log) viol; $(( $(date +%s) - start ))s; $(grep 'tier=thorough' $OUT/$c.log | cut -c1-120)"
done
