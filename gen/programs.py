"""Hypothesis strategy for well-typed HiD programs (DESIGN.md 2.4).

Programs are built top-down with an explicit typing environment, so they are
well-typed by construction; every expression node carries its static type.
Feature switches select the sub-language per property.
"""
from hypothesis import strategies as st

from hast import *  # noqa

ALL_FEATURES = frozenset({
    'bytes', 'bools', 'strings', 'arrays', 'calls', 'globals', 'loops', 'recursion', 'overloads',
    'faults',        # operands that may raise runtime faults (div by 0, OOB, bad VLA length)
    'tt',            # time travel: try/undo, try/stop, preempt, ??, defeat functions
    'terminal',      # all_is_win / all_is_broken / sleep / debug / progress
    'shadow',        # locals shadowing globals
    'bigvals',       # boundary-valued literals
})
SEQ_FEATURES = ALL_FEATURES - {'tt'}


class VarInfo:
    __slots__ = ('name', 'ty', 'const', 'static_len', 'frozen', 'is_global', 'init_done')

    def __init__(self, name, ty, const=False, static_len=None, frozen=False, is_global=False):
        self.name = name
        self.ty = ty
        self.const = const
        self.static_len = static_len
        self.frozen = frozen
        self.is_global = is_global


class FuncInfo:
    __slots__ = ('name', 'flavor', 'ret', 'params', 'recursive', 'preemptive')

    def __init__(self, name, flavor, ret, params, recursive=False):
        self.name = name
        self.flavor = flavor    # '' | '@' | '!'
        self.ret = ret
        self.params = params    # list of Param
        self.recursive = recursive
        self.preemptive = False


SMALL = [0, 1, 2, 3, 4, 5, 7, 8, 9, 10]


class Builder:
    def __init__(self, draw, features, ws, size):
        self.draw = draw
        self.F = features
        self.ws = ws
        self.size = size            # dict of bounds
        self.globals = []
        self.funcs = []
        self.func_nodes = []
        self.scopes = []
        self.counter = 0
        self.flavor = ''
        self.in_try = False         # inside a try body (defeat context)
        self.in_spec = False        # inside a ?? operand (ordinary context)
        self.loop_depth = 0
        self.cur_ret = EMPTY
        self.cur_func = None
        self.stmt_budget = 0
        self.preempts = 0
        self.try_kind = None
        self.helper_try_kind = None
        self.main_try_kind = None   # when set, every try in @is_you is of this kind (compile-order sensitivity of stop)

    # -- drawing helpers ---------------------------------------------------
    def integer(self, lo, hi):
        return self.draw(st.integers(lo, hi))

    def chance(self, pct):
        return self.draw(st.integers(0, 99)) < pct

    def pick(self, seq):
        # draw an index, never the objects themselves: the repr of a strategy feeds Hypothesis' labels, and a
        # repr containing memory addresses would make generation differ from process to process
        seq = list(seq)
        return seq[self.draw(st.sampled_from(range(len(seq))))]

    def weighted(self, options):
        """options: list of (weight, value) -> value"""
        total = sum(w for w, _ in options)
        k = self.integer(0, total - 1)
        for w, v in options:
            if k < w:
                return v
            k -= w
        raise AssertionError

    def fresh(self, prefix):
        self.counter += 1
        return '%s%d' % (prefix, self.counter)

    # -- environment -------------------------------------------------------
    def visible(self):
        seen = set()
        out = []
        for scope in reversed(self.scopes):
            for v in reversed(scope):
                if v.name not in seen:
                    seen.add(v.name)
                    out.append(v)
        for v in self.globals:
            if v.name not in seen:
                seen.add(v.name)
                out.append(v)
        return out

    def vars_of(self, pred):
        return [v for v in self.visible() if pred(v)]

    def declare(self, v):
        self.scopes[-1].append(v)

    # -- literals ----------------------------------------------------------
    def int_value(self):
        if 'bigvals' in self.F and self.chance(15):
            b = 8 * self.ws
            hi = (1 << (b - 1)) - 1
            return self.pick([hi, -hi - 1, hi - 1, -hi, 255, 256, 257, 127, 128, -128, -129, -255, -256, 1000, -1000,
                              hi // 2, 12345 if self.ws > 2 else 1234])
        if self.chance(70):
            return self.pick(SMALL)
        return self.integer(-20, 120)

    def int_lit(self):
        return Lit('int', self.int_value(), None, t=INT)

    def byte_lit(self):
        if self.chance(50):
            return Lit('char', self.pick([65, 66, 97, 122, 48, 57, 32, 10, 0, 255, 128, 127, 39, 34, 92]), None, t=BYTE)
        return Lit('char', self.integer(0, 255), None, t=BYTE)

    def string_lit(self):
        n = self.integer(0, 6)
        data = bytes(self.pick([97, 98, 99, 120, 32, 65, 90, 48, 10, 34, 39, 92, 0, 200, 255]) for _ in range(n))
        return Lit('string', data, None, t=STRING)

    # -- expressions -------------------------------------------------------
    def callable_funcs(self, ret):
        out = []
        for f in self.funcs:
            if f.ret != ret:
                continue
            if f is self.cur_func:
                continue
            if f.flavor == '':
                out.append(f)
            elif f.flavor == '@':
                if self.flavor == '@' and not self.in_try and not self.in_spec:
                    out.append(f)
            elif f.flavor == '!':
                if (self.in_try or self.flavor == '!') and not self.in_spec:
                    out.append(f)
        return out

    def expr(self, ty, depth=None, exact=True):
        """Expression whose static type is exactly `ty` (scalars)."""
        if depth is None:
            depth = self.size['expr_depth']
        if ty == INT:
            return self.int_expr(depth)
        if ty == BYTE:
            return self.byte_expr(depth)
        if ty == BOOL:
            return self.bool_expr(depth)
        if ty == STRING:
            return self.string_expr(depth)
        raise ValueError(ty)

    def num_expr(self, depth):
        """int- or byte-typed expression (for operands that coerce to int)."""
        if 'bytes' in self.F and self.chance(25):
            return self.byte_expr(depth)
        return self.int_expr(depth)

    def coercing(self, ty, depth=None):
        """Expression acceptable where `ty` is expected (may rely on implicit coercion)."""
        if depth is None:
            depth = self.size['expr_depth']
        if ty == INT and 'bytes' in self.F and self.chance(15):
            return self.byte_expr(depth)
        if ty == BYTE and self.chance(25):
            return Lit('int', self.integer(0, 255), None, t=INT)
        return self.expr(ty, depth)

    def index_for(self, v, depth):
        """Index expression for array/string variable v: mostly in bounds."""
        n = v.static_len
        loopvars = [x for x in self.visible() if x.frozen and x.ty == INT]
        if 'faults' in self.F and self.chance(6):
            return self.pick([Lit('int', -1, None, t=INT), Lit('int', (n if n is not None else 9), None, t=INT),
                              self.int_expr(max(0, depth - 1))])
        if n is not None and n > 0:
            if self.chance(60):
                return Lit('int', self.integer(0, n - 1), None, t=INT)
            inner = self.int_expr(max(0, depth - 1))
            # ((e % n) + n) % n is in range whatever the sign convention of %
            return Bin('%', Paren(Bin('+', Paren(Bin('%', Paren(inner, t=INT), Lit('int', n, None, t=INT), t=INT), t=INT),
                                       Lit('int', n, None, t=INT), t=INT), t=INT), Lit('int', n, None, t=INT), t=INT)
        if loopvars and self.chance(50):
            x = self.pick(loopvars)
            return Var(x.name, t=INT)
        return Lit('int', 0, None, t=INT)

    def int_expr(self, depth):
        opts = [(30, 'lit'), (30, 'var')]
        if depth > 0:
            opts += [(30, 'arith'), (6, 'neg')]
            if 'bytes' in self.F or 'bools' in self.F:
                opts.append((8, 'cast'))
            if 'arrays' in self.F:
                opts += [(12, 'index'), (6, 'len')]
            if 'calls' in self.F:
                opts.append((14, 'call'))
            if 'tt' in self.F and self.flavor == '@' and not self.in_try and not self.in_spec:
                opts.append((8, 'spec'))
        k = self.weighted(opts)
        if k == 'var':
            vs = self.vars_of(lambda v: v.ty == INT)
            if vs:
                v = self.pick(vs)
                return Var(v.name, t=INT)
            k = 'lit'
        if k == 'lit':
            return self.int_lit()
        if k == 'arith':
            op = self.weighted([(30, '+'), (25, '-'), (20, '*'), (10, '/'), (10, '%')])
            if self.chance(12):
                pair = self.clobber_pair({INT, BYTE})
                if pair:
                    rd, mut = pair
                    if self.chance(25):
                        rd, mut = mut, rd
                    return Bin(self.pick(['+', '-', '*']), rd, mut, t=INT)
            if self.chance(10):
                pair = self.matrix_operands()
                if pair:
                    return Bin(self.pick(['+', '-', '*']), pair[0], pair[1], t=INT)
            l = self.num_expr(depth - 1)
            if op in '/%' and 'faults' in self.F and self.chance(6) and any(isinstance(n_, (Var, Call, Index)) for n_ in walk(l)):
                # a constant divisor that is zero only on the machine (a non-zero multiple of 2^(8 ws)): division_by_zero at run time
                return Bin(op, l, Lit('int', (1 << (8 * self.ws)) * self.pick([1, 1, 2, -1]), None, t=INT), t=INT)
            if op in '/%' and not ('faults' in self.F and self.chance(20)):
                r = Lit('int', self.pick([1, 2, 3, 7, 10, -1, -3]) if 'bigvals' in self.F else self.pick([1, 2, 3, 7, 10]), None, t=INT)
            else:
                r = self.num_expr(depth - 1)
            return Bin(op, l, r, t=INT)
        if k == 'neg':
            return Un(self.pick(['-', '+']), self.num_expr(depth - 1), t=INT)
        if k == 'cast':
            src = []
            if 'bytes' in self.F:
                src.append(BYTE)
            if 'bools' in self.F:
                src.append(BOOL)
            return Is(self.expr(self.pick(src), depth - 1), INT, t=INT)
        if k == 'index' and 'bytes' in self.F and self.chance(20):
            lit_ = self.mixed_literal(INT, depth)
            if lit_ is not None:
                return Index(lit_, Lit('int', self.integer(0, len(lit_.elems) - 1), None, t=INT), t=INT)
        if k == 'index':
            vs = self.vars_of(lambda v: is_arr(v.ty) and v.ty[1] == INT)
            if vs:
                v = self.pick(vs)
                return Index(Var(v.name, t=v.ty), self.index_for(v, depth), t=INT)
            return self.int_lit()
        if k == 'len' and self.chance(8):
            return Len(ArrLit([], t=arr(EMPTY, True)), t=INT)
        if k == 'len':
            vs = self.vars_of(lambda v: is_arr(v.ty) or v.ty == STRING)
            if vs:
                v = self.pick(vs)
                return Len(Var(v.name, t=v.ty), t=INT)
            return self.int_lit()
        if k == 'call':
            fs = self.callable_funcs(INT)
            if fs:
                return self.call_expr(self.pick(fs), depth - 1)
            return self.int_lit()
        if k == 'spec':
            return self.spec_expr(INT, depth - 1)
        raise AssertionError(k)

    def byte_expr(self, depth):
        opts = [(30, 'lit'), (30, 'var')]
        if depth > 0:
            opts.append((15, 'cast'))
            if 'arrays' in self.F or 'strings' in self.F:
                opts.append((15, 'index'))
            if 'calls' in self.F:
                opts.append((10, 'call'))
            if 'tt' in self.F and self.flavor == '@' and not self.in_try and not self.in_spec:
                opts.append((5, 'spec'))
        k = self.weighted(opts)
        if k == 'var':
            vs = self.vars_of(lambda v: v.ty == BYTE)
            if vs:
                return Var(self.pick(vs).name, t=BYTE)
            k = 'lit'
        if k == 'lit':
            return self.byte_lit()
        if k == 'cast':
            if 'bools' in self.F and self.chance(25):
                return Is(self.bool_expr(depth - 1), BYTE, t=BYTE)
            return Is(self.int_expr(depth - 1), BYTE, t=BYTE)
        if k == 'index' and self.chance(20):
            lit_ = self.mixed_literal(BYTE, depth)
            if lit_ is not None:
                return Index(lit_, Lit('int', self.integer(0, len(lit_.elems) - 1), None, t=INT), t=BYTE)
        if k == 'index' and 'strings' in self.F and self.chance(25):
            # indexing a string constant directly (literal or const global): its length is a compile-time fact
            consts = self.vars_of(lambda v: v.ty == STRING and v.const and v.static_len)
            if consts and self.chance(50):
                v = self.pick(consts)
                return Index(Var(v.name, t=STRING), self.index_for(v, depth), t=BYTE)
            data = bytes(self.pick([97, 98, 48, 57, 65, 32, 200, 0, 92, 34]) for _ in range(self.integer(1, 6)))
            fake = VarInfo('', STRING, const=True, static_len=len(data))
            return Index(Lit('string', data, None, t=STRING), self.index_for(fake, depth), t=BYTE)
        if k == 'index':
            vs = self.vars_of(lambda v: (is_arr(v.ty) and v.ty[1] == BYTE) or v.ty == STRING)
            # string indexing needs a static length to stay in bounds: only arrays and known strings
            vs = [v for v in vs if is_arr(v.ty) or v.static_len is not None]
            if vs:
                v = self.pick(vs)
                return Index(Var(v.name, t=v.ty), self.index_for(v, depth), t=BYTE)
            return self.byte_lit()
        if k == 'call':
            fs = self.callable_funcs(BYTE)
            if fs:
                return self.call_expr(self.pick(fs), depth - 1)
            return self.byte_lit()
        if k == 'spec':
            return self.spec_expr(BYTE, depth - 1)
        raise AssertionError(k)

    def truthy_operand(self, depth):
        """Operand of and/or/not/is bool/conditions: anything castable to bool."""
        opts = [(70, BOOL), (12, INT)]
        if 'bytes' in self.F:
            opts.append((6, BYTE))
        if 'strings' in self.F:
            opts.append((4, STRING))
        if 'arrays' in self.F:
            opts.append((4, 'array'))
        k = self.weighted(opts)
        if k == 'array' and self.chance(12):
            return ArrLit([], t=arr(EMPTY, True))
        if k == 'array':
            vs = self.vars_of(lambda v: is_arr(v.ty))
            if vs:
                v = self.pick(vs)
                return Var(v.name, t=v.ty)
            k = BOOL
        return self.expr(k, depth)

    def bool_expr(self, depth):
        opts = [(15, 'lit'), (25, 'var')]
        if depth > 0:
            opts += [(40, 'cmp'), (14, 'eq'), (20, 'logic'), (8, 'not'), (8, 'cast')]
            if 'arrays' in self.F and 'bools' in self.F:
                opts.append((8, 'index'))
            if 'calls' in self.F:
                opts.append((8, 'call'))
            if 'tt' in self.F and self.flavor == '@' and not self.in_try and not self.in_spec:
                opts.append((4, 'spec'))
        k = self.weighted(opts)
        if k == 'var':
            vs = self.vars_of(lambda v: v.ty == BOOL)
            if vs:
                return Var(self.pick(vs).name, t=BOOL)
            k = 'cmp' if depth > 0 else 'lit'
        if k == 'lit':
            return Lit('bool', self.chance(50), None, t=BOOL)
        if k == 'cmp':
            if self.chance(12):
                pair = self.clobber_pair({INT, BYTE})
                if pair:
                    return Bin(self.pick(['<', '<=', '>', '>=', '==', '!=']), pair[0], pair[1], t=BOOL)
            if self.chance(12):
                pair = self.matrix_operands()
                if pair:
                    return Bin(self.pick(['<', '<=', '>', '>=', '==', '!=']), pair[0], pair[1], t=BOOL)
            return Bin(self.pick(['<', '<=', '>', '>=']), self.num_expr(depth - 1), self.num_expr(depth - 1), t=BOOL)
        if k == 'eq':
            op = self.pick(['==', '!='])
            if self.chance(15):
                pair = self.clobber_pair({BOOL})
                if pair:
                    return Bin(op, pair[0], pair[1], t=BOOL)
            if self.chance(25):
                return Bin(op, self.bool_expr(depth - 1), self.bool_expr(depth - 1), t=BOOL)
            return Bin(op, self.num_expr(depth - 1), self.num_expr(depth - 1), t=BOOL)
        if k == 'logic':
            return Bin(self.pick(['and', 'or']), self.truthy_operand(depth - 1), self.truthy_operand(depth - 1), t=BOOL)
        if k == 'not':
            return Un('not', self.truthy_operand(depth - 1), t=BOOL)
        if k == 'cast':
            return Is(self.truthy_operand(depth - 1), BOOL, t=BOOL)
        if k == 'index':
            vs = self.vars_of(lambda v: is_arr(v.ty) and v.ty[1] == BOOL)
            if vs:
                v = self.pick(vs)
                return Index(Var(v.name, t=v.ty), self.index_for(v, depth), t=BOOL)
            return Lit('bool', self.chance(50), None, t=BOOL)
        if k == 'call':
            fs = self.callable_funcs(BOOL)
            if fs:
                return self.call_expr(self.pick(fs), depth - 1)
            return Lit('bool', self.chance(50), None, t=BOOL)
        if k == 'spec':
            return self.spec_expr(BOOL, depth - 1)
        raise AssertionError(k)

    def string_expr(self, depth):
        opts = [(40, 'lit'), (40, 'var')]
        if depth > 0:
            if 'arrays' in self.F:
                opts.append((15, 'index'))
            if 'calls' in self.F:
                opts.append((15, 'call'))
        k = self.weighted(opts)
        if k == 'var':
            vs = self.vars_of(lambda v: v.ty == STRING)
            if vs:
                return Var(self.pick(vs).name, t=STRING)
            k = 'lit'
        if k == 'lit':
            return self.string_lit()
        if k == 'index':
            vs = self.vars_of(lambda v: is_arr(v.ty) and v.ty[1] == STRING and v.static_len)
            if vs:
                v = self.pick(vs)
                return Index(Var(v.name, t=v.ty), self.index_for(v, depth), t=STRING)
            return self.string_lit()
        if k == 'call':
            fs = self.callable_funcs(STRING)
            if fs:
                return self.call_expr(self.pick(fs), depth - 1)
            return self.string_lit()
        raise AssertionError(k)

    def mixed_literal(self, want, depth):
        """Array literal mixing int literals and byte-typed expressions whose element type, by the documented
        rule (first element type, in order of occurrence, that every element can be coerced to), is `want`."""
        n = self.integer(2, 4)
        elems = []
        for _ in range(n):
            if self.chance(50):
                elems.append(Lit('int', self.integer(0, 255), None, t=INT))
            else:
                elems.append(self.byte_expr(min(depth, 1)))
        if want == INT and self.chance(50):
            elems.append(self.int_expr(0) if self.chance(50) else Lit('int', self.integer(256, 999), None, t=INT))
        # type by rule
        order = []
        for e in elems:
            if e.t not in order:
                order.append(e.t)

        def ok(e, t):
            return e.t == t or (e.t == BYTE and t == INT) or (e.t == INT and t == BYTE and isinstance(e, Lit))
        ty = None
        for t in order:
            if all(ok(e, t) for e in elems):
                ty = t
                break
        if ty != want:
            return None
        return ArrLit(elems, t=arr(ty, True))

    def spec_expr(self, ty, depth):
        # a ?? b: both operands ordinary context
        if self.chance(25):
            pair = self.clobber_pair({ty})
            if pair:
                rd, mut = pair
                return Spec(mut, rd, t=ty) if self.chance(70) else Spec(rd, mut, t=ty)
        old = self.in_spec
        self.in_spec = True
        try:
            l = self.expr(ty, depth)
            r = self.expr(ty, depth) if self.chance(60) else (
                Lit('int', self.pick(SMALL), None, t=INT) if ty == INT else self.expr(ty, 0))
        finally:
            self.in_spec = old
        return Spec(l, r, t=ty)

    def array_arg(self, pty, depth):
        """Argument for an array parameter of type pty."""
        el, pconst = pty[1], pty[2]
        vs = self.vars_of(lambda v: is_arr(v.ty) and v.ty[1] == el and (pconst or not v.ty[2]))
        if vs and self.chance(75):
            v = self.pick(vs)
            return Var(v.name, t=v.ty)
        if el == BYTE and pconst and 'strings' in self.F and self.chance(30):
            return self.string_expr(depth)
        n = self.integer(1, 4)
        elems = [self.expr(el, min(depth, 1)) for _ in range(n)]
        return ArrLit(elems, t=arr(el, pconst))

    def call_expr(self, f, depth):
        args = []
        for p in f.params:
            if is_arr(p.ty):
                args.append(self.array_arg(p.ty, depth))
            elif f.recursive and p.name == 'depth':
                args.append(Lit('int', self.integer(0, self.size['rec_depth']), None, t=INT))
            elif p.ty == INT and 'bytes' in self.F and self.chance(30 if self.is_overloaded(f.name) else 8):
                args.append(self.byte_expr(depth))          # byte -> int coercion in a call
            elif p.ty == BYTE and self.is_overloaded(f.name) and self.chance(30):
                args.append(Lit('int', self.integer(0, 255), None, t=INT))   # literal -> byte coercion
            else:
                args.append(self.expr(p.ty, depth))
        return Call(f.name, args, t=f.ret)

    # -- statements --------------------------------------------------------
    def is_overloaded(self, name):
        return sum(1 for f in self.funcs if f.name == name) > 1

    def probe(self, e=None):
        """Statements printing a value."""
        if e is None and 'bytes' in self.F and 'arrays' in self.F and self.chance(7):
            # write of a whole byte array (library loop over const-section or state storage; lengths from 0)
            bs = self.vars_of(lambda v: is_arr(v.ty) and v.ty[1] == BYTE)
            ss = self.vars_of(lambda v: v.ty == STRING) if 'strings' in self.F else []
            if bs and (not ss or self.chance(70)):
                v = self.pick(bs)
                return [ExprStmt(Call(self.pick(['write', 'writeln']), [Var(v.name, t=v.ty)], t=EMPTY))]
            if ss:
                v = self.pick(ss)
                return [ExprStmt(Call('write', [Is(Var(v.name, t=STRING), arr(BYTE, True), t=arr(BYTE, True))], t=EMPTY))]
        if e is None and 'strings' in self.F and self.chance(6):
            # a character of a string reached through a variable / parameter / string-array element, guarded by its length
            ss = self.vars_of(lambda v: v.ty == STRING)
            sa = self.vars_of(lambda v: is_arr(v.ty) and v.ty[1] == STRING and v.static_len) if 'arrays' in self.F else []
            src = None
            if sa and (not ss or self.chance(40)):
                a = self.pick(sa)
                src = Index(Var(a.name, t=a.ty), Lit('int', self.integer(0, a.static_len - 1), None, t=INT), t=STRING)
            elif ss:
                src = Var(self.pick(ss).name, t=STRING)
            if src is not None:
                k = self.integer(0, 3)
                import copy as _copy
                ch = Index(_copy.deepcopy(src), Lit('int', k, None, t=INT), t=BYTE)
                return [If(Bin('>', Len(src, t=INT), Lit('int', k, None, t=INT), t=BOOL),
                           Block([ExprStmt(Call('write', [Is(ch, INT, t=INT)], t=EMPTY)), ExprStmt(Call('write', [Lit('char', 32, None, t=BYTE)], t=EMPTY))]), None)]
        if e is None:
            tys = [INT]
            if 'bools' in self.F:
                tys.append(BOOL)
            if 'bytes' in self.F:
                tys.append(BYTE)
            if 'strings' in self.F:
                tys.append(STRING)
            e = self.expr(self.pick(tys))
        if e.t == BYTE and self.chance(50):
            e = Is(e, INT, t=INT)
        if e.t == INT and self.chance(15) and any(isinstance(n_, (Var, Call, Index)) for n_ in walk(e)):
            # numbers with more digits than a word has bytes (write(int) builds its digits below its frame)
            e = Bin('+', Bin('*', Paren(e, t=INT), Lit('int', self.pick([100, 1000, 10000 if self.ws > 2 else 1000]), None, t=INT), t=INT),
                    Lit('int', self.integer(100, 999), None, t=INT), t=INT)
        if self.chance(50):
            return [ExprStmt(Call('writeln', [e], t=EMPTY))]
        return [ExprStmt(Call('write', [e], t=EMPTY)), ExprStmt(Call('write', [Lit('char', 32, None, t=BYTE)], t=EMPTY))]

    def deep_probe(self):
        """A statement whose evaluation needs a deep frame (right-nested operands whose left sides must be kept),
        printed through write(byte) so that no library routine's own reservation hides it."""
        n = self.integer(3, 6)
        arrs = self.vars_of(lambda v: is_arr(v.ty) and v.ty[1] == INT and v.static_len)
        if arrs:
            v = self.pick(arrs)
            inner = Index(Var(v.name, t=v.ty), Lit('int', self.integer(0, v.static_len - 1), None, t=INT), t=INT)
        else:
            inner = Len(Lit('string', b'abc', None, t=STRING), t=INT)
        e = inner
        for _ in range(n):
            # a computed left operand has to be pushed while the right one is evaluated (a literal or local would not)
            left = Paren(Bin(self.pick(['+', '-']), self.num_expr(0), Lit('int', self.integer(1, 9), None, t=INT), t=INT), t=INT)
            e = Bin(self.pick(['+', '-', '*']), left, Paren(e, t=INT), t=INT)
        return [ExprStmt(Call('write', [Is(e, BYTE, t=BYTE)], t=EMPTY))]

    def scalar_types(self):
        tys = [(50, INT)]
        if 'bytes' in self.F:
            tys.append((20, BYTE))
        if 'bools' in self.F:
            tys.append((20, BOOL))
        if 'strings' in self.F:
            tys.append((10, STRING))
        return tys

    def array_el_types(self):
        tys = [(50, INT)]
        if 'bytes' in self.F:
            tys.append((25, BYTE))
        if 'bools' in self.F:
            tys.append((20, BOOL))
        if 'strings' in self.F:
            tys.append((8, STRING))
        return tys

    def local_name(self, prefix='v'):
        if 'shadow' in self.F and self.globals and self.chance(10):
            names = {v.name for scope in self.scopes for v in scope}
            cands = [g.name for g in self.globals if g.name not in names]
            if cands:
                return self.pick(cands)
        return self.fresh(prefix)

    def decl_scalar(self):
        ty = self.weighted(self.scalar_types())
        const = self.chance(12)
        name = self.local_name()
        init = self.coercing(ty)
        sl = None
        if ty == STRING and isinstance(init, Lit) and const:
            sl = len(init.value)
        self.declare(VarInfo(name, ty, const=const, static_len=sl))
        return [Decl(ty, const, name, init)]

    def decl_array(self):
        self._shadow_probe = None
        out = self._decl_array()
        nm = self._shadow_probe
        self._shadow_probe = None
        if nm is not None:
            vs = [v for v in self.visible() if v.name == nm and is_arr(v.ty) and not v.is_global]
            if vs and vs[0].static_len and vs[0].ty[1] in (INT, BYTE, BOOL):
                v = vs[0]
                # the local shadows a global array: read it through literal indices (a lookup by name must find the local)
                for k_ in sorted({0, v.static_len - 1}):
                    el_ = Index(Var(nm, t=v.ty), Lit('int', k_, None, t=INT), t=v.ty[1])
                    out = out + self.probe(Is(el_, INT, t=INT) if v.ty[1] == BYTE else el_)
        return out

    def _decl_array(self):
        el = self.weighted(self.array_el_types())
        name = self.fresh('a')
        if 'shadow' in self.F and self.cur_func is not None and self.chance(8):
            # a local array may shadow a global (array) of the same name: lookups by name must find the local
            taken = {v.name for scope in self.scopes for v in scope}
            cands = [g.name for g in self.globals if is_arr(g.ty) and g.name not in taken and g.name not in getattr(self, 'mutators', {})]
            if cands:
                name = self.pick(cands)
                self._shadow_probe = name
        form = self.weighted([(45, 'lit'), (30, 'vla'), (10, 'alias'), (15, 'constlit')])
        if form == 'alias':
            vs = self.vars_of(lambda v: is_arr(v.ty) and v.ty[1] == el)
            if vs:
                v = self.pick(vs)
                self.declare(VarInfo(name, v.ty, const=True, static_len=v.static_len))
                return [Decl(v.ty, True, name, Var(v.name, t=v.ty))]
            form = 'lit'
        if form in ('lit', 'constlit'):
            const = form == 'constlit' or self.chance(20)
            n = self.integer(0 if self.chance(10) else 1, self.size['arr_len'])
            if el == BOOL and self.chance(30):
                n = self.pick([1, 7, 8, 9, 16, 17])
            prim = form == 'constlit' or self.chance(40)
            elems = []
            for _ in range(n):
                if prim:
                    if el == INT:
                        elems.append(self.int_lit())
                    elif el == BYTE:
                        elems.append(self.byte_lit() if self.chance(60) else Lit('int', self.integer(0, 255), None, t=INT))
                    elif el == BOOL:
                        elems.append(Lit('bool', self.chance(50), None, t=BOOL))
                    else:
                        elems.append(self.string_lit())
                else:
                    elems.append(self.coercing(el, 2) if el != STRING else self.string_expr(1))
            ty = arr(el, const)
            self.declare(VarInfo(name, ty, const=True, static_len=n))
            out = [Decl(ty, True, name, ArrLit(elems, t=ty))]
            if const and prim and n >= 1 and el != STRING and self.chance(30):
                # a sibling constant with the same leading elements and a tail of zero / false elements (or a shorter prefix):
                # constants that look alike in the data section must still be different objects with their own lengths
                import copy as _copy
                zero = {INT: lambda: Lit('int', 0, None, t=INT), BYTE: lambda: Lit('char', 0, None, t=BYTE), BOOL: lambda: Lit('bool', False, None, t=BOOL)}[el]
                if self.chance(70):
                    sib = [_copy.deepcopy(x) for x in elems] + [zero() for _ in range(self.integer(1, 9))]
                else:
                    sib = [_copy.deepcopy(x) for x in elems[:max(1, n - 1)]]
                sname = self.fresh('a')
                self.declare(VarInfo(sname, ty, const=True, static_len=len(sib)))
                out.append(Decl(ty, True, sname, ArrLit(sib, t=ty)))
                if el in (INT, BYTE) and all(isinstance(x, Lit) and 0 <= x.value <= 255 for x in elems) and self.chance(60):
                    # the same numbers as a constant of the other element width: equal values must not mean shared storage
                    oel = BYTE if el == INT else INT
                    oty = arr(oel, True)
                    oname = self.fresh('a')
                    oelems = [Lit('char', x.value, None, t=BYTE) if oel == BYTE else Lit('int', x.value, None, t=INT) for x in elems]
                    self.declare(VarInfo(oname, oty, const=True, static_len=n))
                    out.append(Decl(oty, True, oname, ArrLit(oelems, t=oty)))
                    lastx = Index(Var(oname, t=oty), Lit('int', n - 1, None, t=INT), t=oel)
                    out.append(ExprStmt(Call('writeln', [Is(lastx, INT, t=INT) if oel == BYTE else lastx], t=EMPTY)))
                for nm, ln in ((name, n), (sname, len(sib))):
                    out.append(ExprStmt(Call('write', [Len(Var(nm, t=ty), t=INT)], t=EMPTY)))
                    last = Index(Var(nm, t=ty), Lit('int', ln - 1, None, t=INT), t=el)
                    out.append(ExprStmt(Call('writeln', [Is(last, INT, t=INT) if el == BYTE else last], t=EMPTY)))
            return out
        # VLA + fill loop
        if 'faults' in self.F and self.chance(8):
            length = self.pick([Lit('int', -1, None, t=INT), Lit('int', -7, None, t=INT), Lit('int', -8, None, t=INT),
                                self.int_expr(1)])
            n = None
        else:
            n = self.integer(0, self.size['arr_len'])
            if el == BOOL and self.chance(35):
                n = self.pick([7, 8, 9, 15, 16, 17, 20])       # bit-packed: lengths around the byte boundaries
            length = Lit('int', n, None, t=INT)
            if self.size.get('argv_vla') and el != STRING and self.chance(55) and not any(v.name == 'gvl' for sc in self.scopes for v in sc):
                # run-time length taken from the command line (through a global): the length sweep of C04 drives it
                length = Var('gvl', t=INT)
                n = None
            elif self.chance(40):
                vs = self.vars_of(lambda v: is_arr(v.ty))
                if vs:
                    v = self.pick(vs)
                    length = Len(Var(v.name, t=v.ty), t=INT)
                    n = v.static_len
        ty = arr(el, False)
        out = self.deep_probe() if self.chance(self.size.get('deep_before_vla_pct', 15)) else []
        if isinstance(length, Lit) and n is not None and self.chance(35):
            # the same length held in a (never reassigned) local: the size in bytes has to be computed at run time
            lv = self.fresh('ln')
            self.declare(VarInfo(lv, INT, frozen=True))
            out.append(Decl(INT, False, lv, Lit('int', n, None, t=INT)))
            length = Var(lv, t=INT) if self.chance(70) else Bin('+', Var(lv, t=INT), Lit('int', 0, None, t=INT), t=INT)
        out.append(ArrDecl(el, name, length))
        k = self.fresh('k')
        kv = Var(k, t=INT)
        self.scopes.append([VarInfo(k, INT, frozen=True)])
        if el == INT:
            val = Bin('+', Bin('*', kv, Lit('int', self.integer(1, 9), None, t=INT), t=INT), self.int_lit(), t=INT)
        elif el == BYTE:
            val = Is(Bin('+', kv, Lit('int', self.integer(33, 100), None, t=INT), t=INT), BYTE, t=BYTE)
        elif el == BOOL:
            val = Bin('==', Bin('%', kv, Lit('int', self.integer(2, 3), None, t=INT), t=INT), Lit('int', 0, None, t=INT), t=BOOL)
        else:
            val = self.string_lit()
        self.scopes.pop()
        fill = For(Decl(INT, False, k, Lit('int', 0, None, t=INT)),
                   Bin('<', kv, Len(Var(name, t=ty), t=INT), t=BOOL),
                   AugAssign(kv, '+', Lit('int', 1, None, t=INT)),
                   Block([Assign(Index(Var(name, t=ty), kv, t=el), val)]))
        out.append(fill)
        self.declare(VarInfo(name, ty, const=True, static_len=n))
        if n and n > 0 and el in (INT, BYTE, STRING) and self.chance(35):
            nb = self.fresh('a')
            nel = self.pick([INT, BYTE])
            nty = arr(nel, False)
            elems = [self.coercing(nel, 1) for _ in range(self.integer(1, 4))]
            out.append(Decl(nty, True, nb, ArrLit(elems, t=nty)))
            self.declare(VarInfo(nb, nty, const=True, static_len=len(elems)))
            last = Index(Var(name, t=ty), Lit('int', n - 1, None, t=INT), t=el)
            out += self.probe(Is(last, INT, t=INT) if el == BYTE else last)
        return out

    def discard_stmt(self):
        """An expression statement that is not a call, its value discarded: a lookup whose *index* calls a function with
        an observable effect (`a[m() * 0 + k];`, `-a[..];`, `a[k] + a[..];`).  The call still has to happen."""
        names = {v.name for scope in self.scopes for v in scope}
        cands = [m for n, m in getattr(self, 'mutators', {}).items() if m[1] == INT and not is_arr(m[2].ty) and n not in names]
        arrs = self.vars_of(lambda v: is_arr(v.ty) and v.static_len and v.ty[1] in (INT, BYTE, BOOL))
        if not cands or not arrs:
            return None
        mname, _, g = self.pick(cands)
        a = self.pick(arrs)
        el = a.ty[1]
        k = self.integer(0, a.static_len - 1)
        call = Call(mname, [], t=INT)
        idx = Bin('+', Bin('*', call, Lit('int', 0, None, t=INT), t=INT), Lit('int', k, None, t=INT), t=INT)
        look = Index(Var(a.name, t=a.ty), idx, t=el)
        form = self.integer(0, 3)
        if form == 0 or el == BOOL:
            e = look
        elif form == 1:
            e = Un('-', look, t=INT)
        elif form == 2:
            e = Bin('+', Index(Var(a.name, t=a.ty), Lit('int', k, None, t=INT), t=el), look, t=INT)
        else:
            e = Bin('*', Lit('int', 0, None, t=INT), look, t=INT)
        return [ExprStmt(e)] + self.probe(Var(g.name, t=INT))

    def narrowed_index_store(self):
        """`a[(x * 0 + (256 * m + k)) is byte] (op)= v;` - the index is a computed int outside 0..255 narrowed to byte: the
        store (and the bounds check, and the old value of a compound assignment) must use the low byte."""
        arrs = self.vars_of(lambda v: is_arr(v.ty) and not v.ty[2] and v.static_len and v.ty[1] in (INT, BYTE, BOOL))
        ints = self.vars_of(lambda v: v.ty == INT)
        if not arrs or not ints or 'bytes' not in self.F:
            return None
        a = self.pick(arrs)
        el = a.ty[1]
        k = self.integer(0, a.static_len - 1)
        big = 256 * self.integer(1, 3) + k
        x = self.pick(ints)
        form = self.integer(0, 2)
        if form == 0:
            e = Bin('+', Paren(Bin('*', Var(x.name, t=INT), Lit('int', 0, None, t=INT), t=INT), t=INT), Lit('int', big, None, t=INT), t=INT)
        elif form == 1:
            e = Bin('+', Len(Var(a.name, t=a.ty), t=INT), Lit('int', big - a.static_len, None, t=INT), t=INT)
        else:
            e = Bin('-', Lit('int', big, None, t=INT), Paren(Bin('*', Var(x.name, t=INT), Lit('int', 0, None, t=INT), t=INT), t=INT), t=INT)
        tgt = Index(Var(a.name, t=a.ty), Is(Paren(e, t=INT), BYTE, t=BYTE), t=el)
        val = {INT: lambda: self.int_lit(), BYTE: lambda: self.byte_lit(), BOOL: lambda: Lit('bool', self.chance(50), None, t=BOOL)}[el]()
        if el in (INT, BYTE) and self.chance(45):
            st_ = AugAssign(tgt, self.pick(['+', '-']), val if el == INT else self.byte_lit())
        else:
            st_ = Assign(tgt, val)
        shown = Index(Var(a.name, t=a.ty), Lit('int', k, None, t=INT), t=el)
        return [st_] + self.probe(Is(shown, INT, t=INT) if el == BYTE else shown)

    def index_clobber(self):
        """`g = k; a[g] (op)= <expr calling g's mutator>;` - the index is a bare global that the right-hand side changes
        after it was evaluated (and bounds-checked): the store must go to the old index."""
        names = {v.name for scope in self.scopes for v in scope}
        cands = [(n, m) for n, m in getattr(self, 'mutators', {}).items()
                 if m[1] == INT and not is_arr(m[2].ty) and not m[2].frozen and n not in names]
        arrs = self.vars_of(lambda v: is_arr(v.ty) and not v.ty[2] and v.static_len and v.ty[1] in (INT, BYTE, BOOL))
        if not cands or not arrs:
            return None
        gname, (mname, _, g) = self.pick(cands)
        a = self.pick(arrs)
        el = a.ty[1]
        k = self.integer(0, a.static_len - 1)
        gv = Var(gname, t=INT)
        call = Call(mname, [], t=INT)
        tgt = Index(Var(a.name, t=a.ty), gv, t=el)
        rhs = {INT: lambda: self.pick([call, Bin('+', call, self.int_lit(), t=INT)]),
               BYTE: lambda: Is(call, BYTE, t=BYTE),
               BOOL: lambda: Bin(self.pick(['>', '!=']), call, self.int_lit(), t=BOOL)}[el]()
        out = [Assign(gv, Lit('int', k, None, t=INT))]
        if el in (INT, BYTE) and self.chance(40):
            out.append(AugAssign(tgt, self.pick(['+', '-', '*']), rhs if el == INT else Is(call, BYTE, t=BYTE)))
        else:
            out.append(Assign(tgt, rhs))
        shown = Index(Var(a.name, t=a.ty), Lit('int', k, None, t=INT), t=el)
        out += self.probe(Is(shown, INT, t=INT) if el == BYTE else shown)
        out += self.probe(gv)
        return out

    def assign_stmt(self):
        # scalar variable, plain or compound
        if 'arrays' in self.F and 'globals' in self.F and 'calls' in self.F and not self.in_spec and self.chance(self.size.get('index_clobber_pct', 6)):
            r = self.index_clobber()
            if r is not None:
                return r
        if 'arrays' in self.F and 'bytes' in self.F and self.chance(5):
            r = self.narrowed_index_store()
            if r is not None:
                return r
        vs = self.vars_of(lambda v: not is_arr(v.ty) and not v.const and not v.frozen)
        arrs = self.vars_of(lambda v: is_arr(v.ty) and not v.ty[2]) if 'arrays' in self.F else []
        if arrs and (not vs or self.chance(40)):
            a = self.pick(arrs)
            el = a.ty[1]
            tgt = Index(Var(a.name, t=a.ty), self.index_for(a, 2), t=el)
            if el in (INT, BYTE) and self.chance(35):
                op = self.pick(['+', '-', '*']) if not ('faults' in self.F and self.chance(20)) else self.pick(['/', '%'])
                rhs = self.num_expr(2) if el == INT else (self.byte_expr(1) if self.chance(70) else Lit('int', self.integer(0, 200), None, t=INT))
                if el == BYTE:
                    # a[i] op= e is typed like a[i] = a[i] op e: int result must be coercible to byte,
                    # which holds only if e is itself coercible to byte
                    pass
                return [AugAssign(tgt, op, rhs)]
            return [Assign(tgt, self.coercing(el, 2) if el != STRING else self.string_expr(1))]
        if not vs:
            return self.probe()
        if self.chance(10):
            pair = self.clobber_pair({INT})
            if pair:
                rd, mut = pair
                if self.chance(50):
                    return [AugAssign(rd, self.pick(['+', '-', '*']), mut)]
                return [Assign(rd, Bin(self.pick(['+', '-']), rd, mut, t=INT))]
        v = self.pick(vs)
        tgt = Var(v.name, t=v.ty)
        if ('tt' in self.F and self.flavor == '@' and not self.in_try and not self.in_spec
                and v.ty in (INT, BOOL, BYTE) and self.chance(25)):
            fs = [f for f in self.callable_funcs(v.ty) if f.flavor == '']
            if fs:
                old_spec = self.in_spec
                self.in_spec = True
                l = self.call_expr(self.pick(fs), 1)
                r = self.expr(v.ty, 1)
                self.in_spec = old_spec
                return [Assign(tgt, Spec(l, r, t=v.ty))]
        if v.ty == INT and self.chance(35):
            op = self.pick(['+', '-', '*']) if not ('faults' in self.F and self.chance(15)) else self.pick(['/', '%'])
            return [AugAssign(tgt, op, self.num_expr(2))]
        if v.ty == STRING:
            v.static_len = None
        return [Assign(tgt, self.coercing(v.ty))]

    def block(self, n, new_scope=True, tail=None):
        if new_scope:
            self.scopes.append([])
        stmts = []
        for _ in range(n):
            if self.stmt_budget <= 0:
                break
            stmts += self.stmt()
        if tail is None and 'tt' in self.F and (self.in_try or self.flavor == '!') and not self.in_spec \
                and self.preempts < self.size['max_preempts'] \
                and self.chance(self.size.get('exit_preempt_pct', 12) * (2 if self.loop_depth > 0 else 1)):
            # a block that ends in a preempt which always leaves: whether the block's own cleanup runs depends
            # on whether the preempt is taken
            self.preempts += 1
            if self.cur_func is not None:
                self.cur_func.preemptive = True
            if 'arrays' in self.F and self.chance(50):
                stmts += self.decl_array()          # the block owns an array that its end has to release
            exits = [Return(None if self.cur_ret == EMPTY else self.coercing(self.cur_ret, 1))] if self.cur_func is not None else []
            if self.loop_depth > 0:
                exits += [Break(), Continue()]
            exits.append(ExprStmt(Call('!is_defeat', [], t=EMPTY)))
            stmts.append(Preempt(Block(self.probe(Lit('string', b'<px>', None, t=STRING)) + [self.pick(exits)])))
        if tail is not None:
            # extra statements generated while the block's own scope is still visible
            tail(stmts)
        if new_scope and not self.in_spec and self.chance(self.size.get('uncond_exit_pct', 8)):
            # a nested block that never completes normally: the compiler's exit analysis (what follows the enclosing
            # if/loop/try is reachable or not, implicit returns, block cleanup) only matters for such blocks
            ex = self.uncond_exit()
            if ex is not None and not (stmts and isinstance(stmts[-1], (Return, Break, Continue))):
                stmts.append(ex)
        if new_scope:
            self.scopes.pop()
        return Block(stmts)

    def uncond_exit(self):
        opts = []
        if self.cur_func is not None:
            opts.append((6 if self.cur_func.name != '@is_you' else 2, 'return'))
        if self.loop_depth > 0:
            opts += [(3, 'break'), (3, 'continue')]
        if 'tt' in self.F and (self.in_try or self.flavor == '!'):
            opts.append((2, 'defeat'))
        if 'terminal' in self.F:
            opts.append((1, 'win'))
        if not opts:
            return None
        k = self.weighted(opts)
        if k == 'return':
            return Return(None if self.cur_ret == EMPTY else self.coercing(self.cur_ret, 1))
        if k == 'break':
            return Break()
        if k == 'continue':
            return Continue()
        if k == 'defeat':
            return ExprStmt(Call('!is_defeat', [], t=EMPTY))
        return ExprStmt(Call('all_is_win', [], t=EMPTY))

    def matrix_operands(self):
        """(left, right) numeric operands drawn from a kind x kind matrix: the left value has to survive the
        evaluation of the right one whatever form either takes (reachability obligation 'operand kept/not kept')."""
        def elem():
            vs = self.vars_of(lambda v: is_arr(v.ty) and v.ty[1] in (INT, BYTE) and v.static_len)
            if not vs:
                return None
            v = self.pick(vs)
            return Index(Var(v.name, t=v.ty), Lit('int', self.integer(0, v.static_len - 1), None, t=INT), t=v.ty[1])

        def strelem():
            if 'strings' not in self.F:
                return None
            consts = self.vars_of(lambda v: v.ty == STRING and v.const and v.static_len)
            idxvars = [x for x in self.visible() if x.ty == INT and x.frozen]
            if consts and self.chance(40):
                v = self.pick(consts)
                return Index(Var(v.name, t=STRING), Lit('int', self.integer(0, v.static_len - 1), None, t=INT), t=BYTE)
            data = bytes(self.pick([97, 98, 48, 57, 65, 32, 200, 7]) for _ in range(self.integer(1, 10)))
            return Index(Lit('string', data, None, t=STRING), Lit('int', self.integer(0, len(data) - 1), None, t=INT), t=BYTE)

        def length():
            vs = self.vars_of(lambda v: is_arr(v.ty) or v.ty == STRING)
            if not vs:
                return None
            v = self.pick(vs)
            return Len(Var(v.name, t=v.ty), t=INT)

        def var():
            vs = self.vars_of(lambda v: v.ty in (INT, BYTE))
            if not vs:
                return None
            v = self.pick(vs)
            return Var(v.name, t=v.ty)

        def arith():
            return Paren(Bin(self.pick(['+', '-', '*']), self.num_expr(1), self.num_expr(0), t=INT), t=INT)

        def call():
            fs = [f for f in self.callable_funcs(INT) + self.callable_funcs(BYTE) if f.flavor == '']
            if not fs or 'calls' not in self.F:
                return None
            return self.call_expr(self.pick(fs), 1)

        def cast():
            return Is(self.int_expr(1), BYTE, t=BYTE) if 'bytes' in self.F else None

        left_kinds = [elem, strelem, arith, call, length, cast]
        right_kinds = [elem, strelem, length, var, cast, lambda: self.int_lit(), lambda: self.byte_lit()]
        l = self.pick(left_kinds)()
        r = self.pick(right_kinds)()
        if l is None or r is None:
            return None
        return l, r

    def defeat_cond(self):
        """Argument of !truth_is_defeat: every shape the lowering special-cases (comparison, not comparison,
        or-chains, not over a value, constants) plus general bool expressions."""
        k = self.integer(0, 9)
        cmp_ = lambda: Bin(self.pick(['<', '<=', '>', '>=', '==', '!=']), self.num_expr(1), self.num_expr(1), t=BOOL)   # noqa
        if k <= 1:
            return Un('not', cmp_(), t=BOOL)
        if k == 2:
            return Bin('or', cmp_(), Un('not', cmp_(), t=BOOL), t=BOOL)
        if k == 3:
            return Un('not', self.truthy_operand(1), t=BOOL)
        if k == 4:
            return cmp_()
        return self.bool_expr(2)

    def cond_expr(self):
        if 'bytes' in self.F and self.chance(5):
            # `(E * 256 + k) is byte` used directly as a truth value: only the low byte decides (k == 0: false although E != 0)
            k = self.pick([0, 0, 1, 255])
            return Is(Paren(Bin('+', Bin('*', Paren(self.int_expr(1), t=INT), Lit('int', 256, None, t=INT), t=INT), Lit('int', k, None, t=INT), t=INT), t=INT), BYTE, t=BYTE)
        if self.chance(80):
            return self.bool_expr(self.size['expr_depth'])
        return self.truthy_operand(1)

    def stmt(self):
        self.stmt_budget -= 1
        opts = [(22, 'probe'), (14, 'decl'), (18, 'assign'), (12, 'if')]
        if 'arrays' in self.F:
            w = self.size.get('decl_array_weight', 9)
            if self.in_try and self.flavor == '@':
                w = self.size.get('try_decl_array_weight', w)
            opts.append((w, 'decl_array'))
        if 'loops' in self.F and self.loop_depth < self.size['loop_nest']:
            opts += [(8, 'for'), (4, 'while')]
            if self.cur_func is not None:
                opts.append((self.size.get('search_loop_weight', 3), 'search_loop'))
        if self.loop_depth > 0:
            opts.append((self.size.get('break_weight', 4), 'break_continue'))
        if 'calls' in self.F:
            opts.append((8, 'call'))
            if 'arrays' in self.F and 'globals' in self.F:
                opts.append((self.size.get('discard_weight', 2), 'discard'))
        if self.cur_func is not None:
            opts.append((self.size.get('return_weight', 3) if self.cur_func.name != '@is_you' else 1, 'early_return'))
        if 'terminal' in self.F:
            opts.append((1, 'terminal'))
        if 'tt' in self.F:
            if self.flavor == '@' and not self.in_try:
                opts.append((10, 'try'))
            if self.in_try or self.flavor == '!':
                opts += [(10, 'preempt'), (16, 'defeat')]
        k = self.weighted(opts)
        if k == 'probe':
            return self.probe()
        if k == 'decl':
            return self.decl_scalar()
        if k == 'decl_array':
            return self.decl_array()
        if k == 'assign':
            return self.assign_stmt()
        if k == 'if':
            cond = self.cond_expr()
            then = self.block(self.integer(1, 3))
            els = None
            if self.chance(45):
                els = self.block(self.integer(1, 2))
            return [If(cond, then, els)]
        if k == 'for':
            return self.for_loop()
        if k == 'search_loop':
            return self.search_loop()
        if k == 'while':
            return self.while_loop()
        if k == 'break_continue':
            inner = Break() if self.chance(50) else Continue()
            return [If(self.cond_expr(), Block(self.probe() + [inner]), None)]
        if k == 'discard':
            r = self.discard_stmt()
            return r if r is not None else self.probe()
        if k == 'call':
            fs = [f for ret in (EMPTY, INT, BOOL, BYTE, STRING) for f in self.callable_funcs(ret)]
            if not fs:
                return self.probe()
            return [ExprStmt(self.call_expr(self.pick(fs), 2))]
        if k == 'early_return':
            ret = [Return(None if self.cur_ret == EMPTY else self.coercing(self.cur_ret))]
            return [If(self.cond_expr(), Block(self.probe() + ret), None)]
        if k == 'terminal':
            which = self.weighted([(3, 'sleep'), (2, 'debug'), (2, 'progress'), (1, 'win'), (1, 'broken')])
            if which == 'sleep':
                return [ExprStmt(Call('sleep', [self.int_expr(1)], t=EMPTY))]
            if which in ('debug', 'progress'):
                return [ExprStmt(Call(which, [], t=EMPTY))]
            name = 'all_is_win' if which == 'win' else 'all_is_broken'
            return [If(self.cond_expr(), Block([ExprStmt(Call(name, [], t=EMPTY))]), None)]
        if k == 'try':
            return self.try_stmt()
        if k == 'preempt':
            if self.preempts >= self.size['max_preempts']:
                return self.probe()
            self.preempts += 1
            if self.cur_func is not None:
                self.cur_func.preemptive = True
            def tail(stmts):
                if self.cur_func is not None and self.chance(35 if self.cur_func.name != '@is_you' else 12):
                    stmts.append(Return(None if self.cur_ret == EMPTY else self.coercing(self.cur_ret)))
                elif self.loop_depth > 0 and self.chance(25):
                    stmts.append(Break() if self.chance(50) else Continue())

            body = self.block(self.integer(1, 2), tail=tail)
            return [Preempt(body)]
        if k == 'defeat':
            which = self.weighted([(3, 'is_defeat'), (5, 'truth'), (self.size.get('defeat_call_weight', 4), 'call')])
            if which == 'call':
                fs = [f for ret in (EMPTY, INT, BOOL, BYTE) for f in self.callable_funcs(ret) if f.flavor == '!']
                if fs:
                    return [ExprStmt(self.call_expr(self.pick(fs), 2))]
                which = 'truth'
            if which == 'is_defeat':
                if self.chance(60):
                    return [If(self.cond_expr(), Block([ExprStmt(Call('!is_defeat', [], t=EMPTY))]), None)]
                return [ExprStmt(Call('!is_defeat', [], t=EMPTY))]
            return [ExprStmt(Call('!truth_is_defeat', [self.defeat_cond()], t=EMPTY))]
        raise AssertionError(k)

    def for_loop(self, search=False):
        i = self.fresh('i')
        n = self.integer(0, self.size['loop_iters'])
        iv = Var(i, t=INT)
        bound = Lit('int', n, None, t=INT)
        if 'arrays' in self.F and self.chance(30):
            vs = self.vars_of(lambda v: is_arr(v.ty) and (v.static_len is None or v.static_len <= self.size['loop_iters'] + 2))
            if vs:
                v = self.pick(vs)
                bound = Len(Var(v.name, t=v.ty), t=INT)
        self.scopes.append([VarInfo(i, INT, frozen=True)])
        self.loop_depth += 1
        if search:
            self.scopes.append([])
            body = Block(self.search_body_tail())
            self.scopes.pop()
        else:
            body = self.block(self.integer(1, 3))
        self.loop_depth -= 1
        self.scopes.pop()
        step = self.pick([1, 1, 2])
        init = Decl(INT, False, i, Lit('int', 0, None, t=INT))
        stepst = AugAssign(iv, '+', Lit('int', step, None, t=INT))
        if not search and self.chance(12):
            # empty init clause: the counter is an ordinary local declared before the loop
            self.declare(VarInfo(i, INT, frozen=True))
            return [init, For(None, Bin('<', iv, bound, t=BOOL), stepst, body)]
        if not search and self.chance(8):
            # plain assignment (not a declaration) in the init clause
            self.declare(VarInfo(i, INT, frozen=True))
            return [Decl(INT, False, i, Lit('int', 7, None, t=INT)),
                    For(Assign(iv, Lit('int', 0, None, t=INT)), Bin('<', iv, bound, t=BOOL), stepst, body)]
        return [For(init, Bin('<', iv, bound, t=BOOL), stepst, body)]

    def retry_loop(self):
        """`while (true) { w -= 1; if (w > 0) { ..; continue; } ..; return v; }` / the `for (;;)` twin: a trivially infinite
        loop whose body never completes but whose continue is taken at run time."""
        c = self.fresh('w')
        n = self.integer(1, max(1, self.size['loop_iters']))
        cv = Var(c, t=INT)
        self.declare(VarInfo(c, INT, frozen=True))
        self.loop_depth += 1
        self.scopes.append([])
        body = [AugAssign(cv, '-', Lit('int', 1, None, t=INT)),
                If(Bin('>', cv, Lit('int', 0, None, t=INT), t=BOOL), Block(self.probe() + [Continue()]), None)]
        body += self.probe()
        body.append(Return(None if self.cur_ret == EMPTY else self.coercing(self.cur_ret, 1)))
        self.scopes.pop()
        self.loop_depth -= 1
        decl = Decl(INT, False, c, Lit('int', n, None, t=INT))
        if self.chance(50):
            return [decl, While(Lit('bool', True, None, t=BOOL), Block(body))]
        return [decl, For(None, None, None, Block(body))]

    def search_loop(self):
        """The search idiom: a conditional loop without break whose body never completes in straight-line flow
        (`if (..) { continue; } return ..;` or just `return ..;`), followed by code that runs when the loop ends
        through its condition (not found / zero iterations)."""
        if self.chance(25):
            return self.retry_loop()
        loop = (self.for_loop if self.chance(60) else self.while_loop)(search=True)
        return loop

    def search_body_tail(self):
        out = []
        if self.chance(70):
            out.append(If(self.cond_expr(), Block(self.probe() + [Continue()]), None))
        if self.chance(25):
            c = self.cond_expr()
            mk = lambda: Block(self.probe() + [Return(None if self.cur_ret == EMPTY else self.coercing(self.cur_ret, 1))])   # noqa
            out.append(If(c, mk(), mk()))
        else:
            out += self.probe()
            out.append(Return(None if self.cur_ret == EMPTY else self.coercing(self.cur_ret, 1)))
        return out

    def while_loop(self, search=False):
        c = self.fresh('w')
        n = self.integer(0, self.size['loop_iters'])
        cv = Var(c, t=INT)
        self.declare(VarInfo(c, INT, frozen=True))
        self.loop_depth += 1
        if search:
            self.scopes.append([])
            body = Block(self.search_body_tail())
            self.scopes.pop()
        else:
            body = self.block(self.integer(1, 2))
        self.loop_depth -= 1
        # decrement first so that `continue` cannot skip it
        body.stmts.insert(0, AugAssign(cv, '-', Lit('int', 1, None, t=INT)))
        return [Decl(INT, False, c, Lit('int', n, None, t=INT)),
                While(Bin('>', cv, Lit('int', 0, None, t=INT), t=BOOL), body)]

    def fallback_try(self, kind):
        """`try { T v = !f(..); <use v>; return/break/continue; } undo/stop { .. }`: the body never completes normally and
        its only source of defeat is a call in expression position; what follows the try runs only through the handler."""
        fs = [f for ret in (INT, BOOL, BYTE) for f in self.funcs if f.flavor == '!' and f.ret == ret and f is not self.cur_func]
        if not fs or self.cur_func is None:
            return None
        f = self.pick(fs)
        old = (self.in_try, self.preempts, self.try_kind)
        self.in_try = True
        self.preempts = 0
        self.try_kind = kind
        self.scopes.append([])
        v = self.fresh('fv')
        call = self.call_expr(f, 1)
        body = []
        form = self.integer(0, 2)
        if form == 0:
            body.append(Decl(f.ret, False, v, call))
            self.declare(VarInfo(v, f.ret, frozen=True))
            body += self.probe(Var(v, t=f.ret))
        elif form == 1:
            body += self.probe(call)
        else:
            body.append(If(Bin('==', Is(call, INT, t=INT) if f.ret != INT else call, self.int_lit(), t=BOOL), Block(self.probe()), None))
        exits = [Return(None if self.cur_ret == EMPTY else self.coercing(self.cur_ret, 1))]
        if self.loop_depth > 0:
            exits += [Break(), Continue()]
        body.append(self.pick(exits))
        self.scopes.pop()
        self.in_try, self.preempts, self.try_kind = old
        handler = self.block(self.integer(1, 2))
        return [Try(Block(body), kind, handler)]

    def try_stmt(self):
        kind = self.pick(['undo', 'stop'])
        if self.cur_func is not None and self.main_try_kind is not None:
            kind = self.main_try_kind if self.cur_func.name == '@is_you' else self.helper_try_kind
        if 'calls' in self.F and self.chance(self.size.get('fallback_try_pct', 12)):
            r = self.fallback_try(kind)
            if r is not None:
                return r
        old = (self.in_try, self.preempts, self.try_kind)
        self.in_try = True
        self.preempts = 0
        self.try_kind = kind
        guard = None
        pre = []
        if self.chance(45):
            # guard variable: a preempt block can avert the defeat that ends the try body
            guard = self.fresh('pg')
            self.declare(VarInfo(guard, INT, frozen=True))
            pre = [Decl(INT, False, guard, Lit('int', 0, None, t=INT))]
        def tail(stmts):
            if guard is not None:
                gv = Var(guard, t=INT)
                setter = Preempt(Block(self.probe(Lit('string', b'<p>', None, t=STRING)) +
                                       [Assign(gv, Lit('int', 1, None, t=INT))]))
                stmts.insert(self.integer(0, len(stmts)), setter)
                cond = Bin('==', gv, Lit('int', 0, None, t=INT), t=BOOL)
                if self.chance(40):
                    cond = Bin(self.pick(['and', 'or']), cond, self.bool_expr(1), t=BOOL)
                stmts.append(ExprStmt(Call('!truth_is_defeat', [cond], t=EMPTY)))
            # make defeat likely to be relevant
            elif self.chance(55):
                if self.chance(50):
                    stmts.append(ExprStmt(Call('!is_defeat', [], t=EMPTY)))
                else:
                    stmts.append(ExprStmt(Call('!truth_is_defeat', [self.defeat_cond()], t=EMPTY)))

        body = self.block(self.integer(1, 4), tail=tail)
        self.in_try, self.preempts, self.try_kind = old
        handler = self.block(self.integer(1, 2))
        return pre + [Try(body, kind, handler)]

    # -- functions ---------------------------------------------------------
    def gen_params(self, n, allow_arrays=True):
        params = []
        if n >= 2 and self.chance(self.size.get('many_params_pct', 6)):
            n = self.integer(6, 9)          # long parameter lists: frame offsets of the later ones, argument evaluation order
        used = set()
        for _ in range(n):
            pname = self.fresh('p')
            if 'shadow' in self.F and self.globals and self.chance(8):
                # a parameter may shadow a global
                cands = [g.name for g in self.globals if g.name not in used and g.name not in ('gvl',)]
                if cands:
                    pname = self.pick(cands)
            used.add(pname)
            if allow_arrays and 'arrays' in self.F and self.chance(30):
                el = self.weighted(self.array_el_types())
                if 'shadow' in self.F and self.chance(20):
                    # an array parameter named like a global array of the same element type
                    same = [g.name for g in self.globals if is_arr(g.ty) and g.ty[1] == el and g.name not in used and g.name not in getattr(self, 'mutators', {})]
                    if same:
                        pname = self.pick(same)
                        used.add(pname)
                params.append(Param(arr(el, self.chance(50)), True, pname))
            else:
                ty = self.weighted(self.scalar_types())
                params.append(Param(ty, self.chance(10), pname))
        return params

    def gen_func(self, flavor, name=None, ret=None, params=None, recursive=False, tag=None):
        if ret is None:
            ret = self.weighted([(30, EMPTY), (40, INT)] + ([(12, BOOL)] if 'bools' in self.F else []) +
                                ([(10, BYTE)] if 'bytes' in self.F else []) + ([(8, STRING)] if 'strings' in self.F else []))
        if name is None:
            name = flavor + self.fresh('f')
        if params is None:
            params = self.gen_params(self.integer(0, self.size.get('max_params', 3)))
        info = FuncInfo(name, flavor, ret, params, recursive)
        if ret == EMPTY and not recursive and tag is None and name != '@is_you' and self.chance(self.size.get('empty_body_pct', 5)):
            # a literally empty body: only the implicit return keeps control from running into the next function
            self.funcs.append(info)
            self.func_nodes.append(Func(ret, name, params, Block([])))
            return info
        old = (self.flavor, self.cur_ret, self.cur_func, self.scopes, self.loop_depth, self.in_try, self.preempts)
        self.flavor = flavor
        self.cur_ret = ret
        self.cur_func = info
        self.loop_depth = 0
        self.in_try = False
        self.preempts = 0
        self.scopes = [[VarInfo(p.name, p.ty, const=p.const or is_arr(p.ty), frozen=(recursive and p.name == 'depth'))
                        for p in params]]
        self.stmt_budget = self.size['func_stmts']
        stmts = []
        if name != '@is_you' and (tag is not None or self.chance(70)):
            # entry tag makes call order (and the chosen overload) observable
            text = tag if tag is not None else '<%s>' % name.lstrip('@!')
            stmts.append(ExprStmt(Call('write', [Lit('string', text.encode(), None, t=STRING)], t=EMPTY)))
        gnames = {g.name: g for g in self.globals if is_arr(g.ty)}
        for p_ in params:
            if is_arr(p_.ty) and p_.name in gnames and p_.ty[1] in (INT, BYTE, BOOL):
                # an array parameter that shadows a global array: element reads through literal indices must see the argument
                pv = Var(p_.name, t=p_.ty)
                for k_ in (0, 1):
                    el_ = Index(pv, Lit('int', k_, None, t=INT), t=p_.ty[1])
                    stmts.append(If(Bin('>', Len(pv, t=INT), Lit('int', k_, None, t=INT), t=BOOL),
                                    Block([ExprStmt(Call('write', [Is(el_, INT, t=INT) if p_.ty[1] == BYTE else el_], t=EMPTY)),
                                           ExprStmt(Call('write', [Lit('char', 32, None, t=BYTE)], t=EMPTY))]), None))
        if recursive:
            dv = Var('depth', t=INT)
            base = [Return(None if ret == EMPTY else self.coercing(ret, 1))]
            stmts.append(If(Bin('<=', dv, Lit('int', 0, None, t=INT), t=BOOL), Block(base), None))
        body = self.block(self.integer(1, self.size['func_stmts']), new_scope=False)
        stmts += body.stmts
        if recursive:
            # recursive call with decreasing depth
            args = []
            for p in params:
                if p.name == 'depth':
                    args.append(Bin('-', Var('depth', t=INT), Lit('int', 1, None, t=INT), t=INT))
                elif is_arr(p.ty):
                    args.append(Var(p.name, t=p.ty))
                else:
                    args.append(self.expr(p.ty, 1))
            call = Call(name, args, t=ret)
            if ret == EMPTY:
                stmts.append(ExprStmt(call))
            else:
                stmts += self.probe(call) if ret != STRING or 'strings' in self.F else [ExprStmt(call)]
        if ret != EMPTY:
            stmts.append(Return(self.coercing(ret)))
        elif self.chance(20):
            stmts.append(Return(None))
        (self.flavor, self.cur_ret, self.cur_func, self.scopes, self.loop_depth, self.in_try, self.preempts) = old
        self.funcs.append(info)
        self.func_nodes.append(Func(ret, name, params, Block(stmts)))
        return info

    def gen_you_helper(self):
        """`empty @yhN(int x) { try { ..; <call of a user defeat function>; .. } undo|stop { .. } .. }`: a try in a you
        function other than @is_you whose body reaches defeat (or not, depending on x) inside a defeat function that
        other tries of the program share."""
        name = '@' + self.fresh('yh')
        info = FuncInfo(name, '@', EMPTY, [Param(INT, False, 'x')])
        old = (self.flavor, self.cur_ret, self.cur_func, self.scopes, self.loop_depth, self.in_try, self.preempts, self.stmt_budget)
        self.flavor, self.cur_ret, self.cur_func, self.loop_depth, self.preempts = '@', EMPTY, info, 0, 0
        self.scopes = [[VarInfo('x', INT, frozen=True)]]
        self.stmt_budget = 6
        kind = self.helper_try_kind or self.pick(['undo', 'stop', 'stop'])
        ds = [f for f in self.funcs if f.flavor == '!']
        xv = Var('x', t=INT)
        self.in_try = True
        self.scopes.append([])
        body = list(self.probe(Lit('string', ('<%s>' % name[1:]).encode(), None, t=STRING)))
        for _ in range(self.integer(1, 2)):
            d = self.pick(ds)
            args = []
            first_int = True
            for p in d.params:
                if p.ty == INT and first_int and not (d.recursive and p.name == 'depth'):
                    args.append(xv if self.chance(70) else Bin('-', xv, self.int_lit(), t=INT))
                    first_int = False
                else:
                    args.append(None)
            call = self.call_expr(d, 1)
            for i, a in enumerate(args):
                if a is not None:
                    call.args[i] = a
            if d.ret in (INT, BOOL, BYTE) or (d.ret == STRING and 'strings' in self.F):
                body += self.probe(call)
            else:
                body.append(ExprStmt(call))
        if self.chance(50):
            body.append(ExprStmt(Call('!truth_is_defeat', [Bin(self.pick(['>', '<', '==']), xv, Lit('int', self.integer(0, 4), None, t=INT), t=BOOL)], t=EMPTY)))
        body += self.probe()
        self.scopes.pop()
        self.in_try = False
        handler = self.block(self.integer(1, 2))
        stmts = [Try(Block(body), kind, handler)] + self.probe()
        (self.flavor, self.cur_ret, self.cur_func, self.scopes, self.loop_depth, self.in_try, self.preempts, self.stmt_budget) = old
        self.funcs.append(info)
        self.func_nodes.append(Func(EMPTY, name, [Param(INT, False, 'x')], Block(stmts)))
        return info

    def gen_overload_set(self):
        """2-4 overloads of one name, differing in scalar type, element type, constness or arity, declared
        in drawn order; each prints its own tag so that the overload that runs is observable."""
        name = self.fresh('ov')
        pool = [[INT], [BYTE], [BOOL], [STRING], [INT, INT], [BYTE, INT], [INT, BYTE], []]
        if 'arrays' in self.F:
            pool += [[arr(INT, True)], [arr(INT, False)], [arr(BYTE, True)], [arr(BOOL, True)], [arr(STRING, True)], [arr(BYTE, False)]]
        if 'bytes' not in self.F:
            pool = [p for p in pool if BYTE not in p and arr(BYTE, True) not in p and arr(BYTE, False) not in p]
        if 'bools' not in self.F:
            pool = [p for p in pool if BOOL not in p and arr(BOOL, True) not in p]
        if 'strings' not in self.F:
            pool = [p for p in pool if STRING not in p and arr(STRING, True) not in p]
        n = self.integer(2, 4)
        sigs = []
        for _ in range(n):
            s_ = self.pick(pool)
            if s_ not in sigs:
                sigs.append(s_)
        ret = self.weighted([(50, EMPTY), (50, INT)])
        for k, sig in enumerate(sigs):
            params = [Param(t, is_arr(t) or False, self.fresh('p')) for t in sig]
            tag = '<%s/%s>' % (name, ','.join(type_src(t) for t in sig))
            self.gen_func('', name=name, ret=ret, params=params, tag=tag)

    def gen_globals(self):
        n = self.integer(0, self.size['globals'])
        out = []
        self.const_ints = {}        # const int globals with a known small value (usable in later global initialisers)
        for _ in range(n):
            if 'arrays' in self.F and self.chance(35):
                el = self.weighted(self.array_el_types())
                name = self.fresh('ga')
                if self.chance(25):
                    ln = self.integer(0, self.size['arr_len'])
                    small = [g for g, v in sorted(self.const_ints.items()) if 0 <= v <= self.size['arr_len']]
                    if small and self.chance(40):
                        gl = self.pick(small)
                        ln = self.const_ints[gl]
                        out.append(ArrDecl(el, name, Var(gl, t=INT)))
                    else:
                        out.append(ArrDecl(el, name, Lit('int', ln, None, t=INT)))
                    # contents unspecified until written: only used through fill-then-read helper
                    self.globals.append(VarInfo(name, arr(el, False), const=True, static_len=ln, is_global=True))
                    self.uninit_globals.append(name)
                    continue
                const = self.chance(45)
                ln = self.integer(0 if self.chance(10) else 1, self.size['arr_len'])
                elems = []
                for _ in range(ln):
                    if el == INT and self.const_ints and self.chance(25):
                        # a global initialiser may mention earlier const globals (constant expression, no calls)
                        elems.append(Var(self.pick(sorted(self.const_ints)), t=INT))
                    elif el == INT:
                        elems.append(self.int_lit())
                    elif el == BYTE:
                        elems.append(self.byte_lit())
                    elif el == BOOL:
                        elems.append(Lit('bool', self.chance(50), None, t=BOOL))
                    else:
                        elems.append(self.string_lit())
                ty = arr(el, const)
                out.append(Decl(ty, True, name, ArrLit(elems, t=ty)))
                self.globals.append(VarInfo(name, ty, const=True, static_len=ln, is_global=True))
            else:
                ty = self.weighted(self.scalar_types())
                const = self.chance(25)
                name = self.fresh('g')
                if ty == INT:
                    init = self.int_lit()
                    smallc = [g for g, v in sorted(self.const_ints.items()) if abs(v) < 1000]
                    if smallc and self.chance(35):
                        gref = self.pick(smallc)
                        k = self.integer(0, 9)
                        form = self.integer(0, 3)
                        v0 = self.const_ints[gref]
                        if form == 0:
                            init, val = Var(gref, t=INT), v0
                        elif form == 1:
                            init, val = Bin('+', Var(gref, t=INT), Lit('int', k, None, t=INT), t=INT), v0 + k
                        elif form == 2:
                            init, val = Bin('*', Lit('int', k, None, t=INT), Var(gref, t=INT), t=INT), v0 * k
                        else:
                            init, val = Un('-', Var(gref, t=INT), t=INT), -v0
                        if const:
                            self.const_ints[name] = val
                    elif const and isinstance(init, Lit) and abs(init.value) < 30000:
                        self.const_ints[name] = init.value
                elif ty == BYTE:
                    init = self.byte_lit()
                elif ty == BOOL:
                    init = Lit('bool', self.chance(50), None, t=BOOL)
                else:
                    init = self.string_lit()
                out.append(Decl(ty, const, name, init))
                sl = len(init.value) if (ty == STRING and const) else None
                self.globals.append(VarInfo(name, ty, const=const, static_len=sl, is_global=True))
        return out

    def gen_mutators(self):
        """For some mutable scalar globals and global arrays, a helper that changes the
        storage and returns a value of the same type: used as the *other* operand of
        an operator / ?? / assignment whose first operand reads that storage."""
        self.mutators = {}
        cands = [g for g in self.globals if not g.const and g.ty in (INT, BYTE, BOOL)]
        arrs = [g for g in self.globals if is_arr(g.ty) and not g.ty[2] and g.static_len and g.ty[1] in (INT, BYTE, BOOL)]
        for g in cands[:3] + arrs[:2]:
            name = self.fresh('m')
            if is_arr(g.ty):
                el = g.ty[1]
                tgt = Index(Var(g.name, t=g.ty), Lit('int', 0, None, t=INT), t=el)
                rd = Index(Var(g.name, t=g.ty), Lit('int', 0, None, t=INT), t=el)
            else:
                el = g.ty
                tgt = Var(g.name, t=el)
                rd = Var(g.name, t=el)
            if el == INT:
                upd = Assign(tgt, Bin('+', rd, Lit('int', self.integer(1, 9), None, t=INT), t=INT))
                ret = self.pick([Lit('int', self.integer(0, 5), None, t=INT), rd])
            elif el == BYTE:
                upd = Assign(tgt, Is(Bin('+', rd, Lit('int', self.integer(1, 9), None, t=INT), t=INT), BYTE, t=BYTE))
                ret = self.pick([Lit('char', self.integer(0, 255), None, t=BYTE), rd])
            else:
                upd = Assign(tgt, Un('not', rd, t=BOOL))
                ret = self.pick([Lit('bool', self.chance(50), None, t=BOOL), rd])
            body = [upd, Return(ret)]
            if self.chance(50):
                body.insert(0, ExprStmt(Call('write', [Lit('string', ('<%s>' % name).encode(), None, t=STRING)], t=EMPTY)))
            self.func_nodes.append(Func(el, name, [], Block(body)))
            self.mutators[g.name] = (name, el, g)

    def clobber_pair(self, want):
        """-> (reader expr, mutator call) over the same global storage, or None.
        want: set of acceptable element types."""
        names = {v.name for scope in self.scopes for v in scope}
        cands = [(n, m) for n, m in getattr(self, 'mutators', {}).items() if m[1] in want and n not in names]
        if not cands or self.in_spec and False:
            return None
        gname, (mname, el, g) = self.pick(cands)
        if is_arr(g.ty):
            rd = Index(Var(gname, t=g.ty), Lit('int', 0, None, t=INT), t=el)
        else:
            rd = Var(gname, t=el)
        return rd, Call(mname, [], t=el)

    def entry_signature(self):
        """-> (params, argv python values)"""
        shapes = [(25, 'none'), (15, 'scalars')]
        if 'arrays' in self.F:
            shapes += [(20, 'ints'), (12, 'mixed')]
            if 'bytes' in self.F:
                shapes.append((10, 'bytes'))
            if 'strings' in self.F:
                shapes.append((10, 'strings'))
        shape = self.weighted(shapes)
        params = []
        vals = []
        half = 1 << (8 * self.ws - 1)

        def intval():
            if self.chance(25):
                return self.pick([0, 1, -1, half - 1, -half, 255, 256, -256, 127, 128])
            return self.integer(-50, 200)

        def scalar():
            ty = self.weighted([(50, INT)] + ([(25, BYTE)] if 'bytes' in self.F else []) +
                               ([(25, STRING)] if 'strings' in self.F else []))
            params.append(Param(ty, False, self.fresh('e')))
            if ty == INT:
                vals.append(intval())
            elif ty == BYTE:
                vals.append(self.integer(0, 255))
            else:
                vals.append(self.argv_string())

        if shape == 'ints':
            params.append(Param(arr(INT, self.chance(50)), True, 'args'))
            vals.append([intval() for _ in range(self.integer(0, 5))])
        elif shape == 'bytes':
            params.append(Param(arr(BYTE, self.chance(50)), True, 'args'))
            vals.append([self.integer(0, 255) for _ in range(self.integer(0, 5))])
        elif shape == 'strings':
            params.append(Param(arr(STRING, True), True, 'args'))
            vals.append([self.argv_string() for _ in range(self.integer(0, 4))])
        elif shape == 'scalars':
            for _ in range(self.integer(1, 3)):
                scalar()
        elif shape == 'mixed':
            before = self.integer(0, 2)
            after = self.integer(0, 2)
            for _ in range(before):
                scalar()
            params.append(Param(arr(INT, self.chance(50)), True, 'args'))
            vals.append([intval() for _ in range(self.integer(0, 4))])
            for _ in range(after):
                scalar()
        return params, vals

    def argv_string(self):
        n = self.integer(0, 5)
        return bytes(self.pick([97, 98, 120, 32, 65, 48, 45, 34, 92]) for _ in range(n))

    def program(self):
        self.uninit_globals = []
        globs = self.gen_globals() if 'globals' in self.F else []
        if self.size.get('argv_vla'):
            globs.append(Decl(INT, False, 'gvl', Lit('int', 0, None, t=INT)))
            self.globals.append(VarInfo('gvl', INT, const=False, frozen=True, is_global=True))
        # uninitialised global arrays are removed from visibility (contents unspecified)
        self.globals = [g for g in self.globals if g.name not in self.uninit_globals] if not self.size.get('use_uninit_globals') else self.globals
        self.mutators = {}
        if 'calls' in self.F and 'globals' in self.F:
            self.gen_mutators()
        if 'tt' in self.F and self.chance(self.size.get('main_single_kind_pct', 30)):
            # all tries of @is_you of one kind, all tries of you-helpers of the other: whether a defeat function is
            # generated before or after the program's first try/stop (or try/undo) depends on the order of references
            self.main_try_kind = self.pick(['undo', 'undo', 'stop'])
            self.helper_try_kind = 'stop' if self.main_try_kind == 'undo' else 'undo'
        nfuncs = self.integer(0, self.size['funcs']) if 'calls' in self.F else 0
        for _ in range(nfuncs):
            flavors = [(60, '')]
            if 'tt' in self.F:
                flavors += [(20, '!'), (20, '@')]
            flavor = self.weighted(flavors)
            if 'recursion' in self.F and self.chance(20):
                params = [Param(INT, False, 'depth')] + self.gen_params(self.integer(0, 2))
                self.gen_func(flavor, params=params, recursive=True)
            elif 'overloads' in self.F and self.chance(self.size.get('overload_pct', 18)) and flavor == '':
                self.gen_overload_set()
            else:
                self.gen_func(flavor)
        if 'tt' in self.F and 'calls' in self.F and 'arrays' in self.F and self.chance(60):
            # defeat helper that holds a live stack array (and possibly calls on) at the moment defeat is reached
            name = '!' + self.fresh('ad')
            el = self.pick([INT, BYTE, BOOL])
            aname = self.fresh('a')
            n = self.integer(1, 5)
            lit_el = {INT: lambda: self.int_lit(), BYTE: lambda: self.byte_lit(), BOOL: lambda: Lit('bool', self.chance(50), None, t=BOOL)}[el]
            xv = Var('x', t=INT)
            first = {INT: xv, BYTE: Is(xv, BYTE, t=BYTE), BOOL: Bin('>', xv, Lit('int', 1, None, t=INT), t=BOOL)}[el]
            aty = arr(el, False)
            body = [ExprStmt(Call('write', [Lit('string', ('<%s>' % name[1:]).encode(), None, t=STRING)], t=EMPTY)),
                    Decl(aty, True, aname, ArrLit([first] + [lit_el() for _ in range(n)], t=aty))]
            inner = [f for f in self.funcs if f.flavor == '!' and f.ret == EMPTY and len(f.params) == 0]
            if inner and self.chance(40):
                body.append(ExprStmt(Call(self.pick(inner).name, [], t=EMPTY)))
            body.append(ExprStmt(Call('!truth_is_defeat', [Bin(self.pick(['>', '<', '!=']), xv, Lit('int', self.integer(0, 3), None, t=INT), t=BOOL)], t=EMPTY)))
            shown = Index(Var(aname, t=aty), Lit('int', 0, None, t=INT), t=el)
            body.append(ExprStmt(Call('write', [Is(shown, INT, t=INT) if el == BYTE else shown], t=EMPTY)))
            info = FuncInfo(name, '!', EMPTY, [Param(INT, False, 'x')])
            self.funcs.append(info)
            self.func_nodes.append(Func(EMPTY, name, [Param(INT, False, 'x')], Block(body)))
        if 'tt' in self.F and 'calls' in self.F:
            if not any(f.flavor == '!' for f in self.funcs):
                self.gen_func('!')
            if self.chance(50):
                self.gen_func('!', ret=self.pick([EMPTY, INT]))
        you_helpers = []
        if 'tt' in self.F and 'calls' in self.F:
            for _ in range(self.weighted([(55, 0), (35, 1), (10, 2)])):
                you_helpers.append(self.gen_you_helper())
        params, vals = self.entry_signature()
        if self.size.get('argv_vla'):
            params = [Param(INT, False, 'vlen')] + [p for p in params if not is_arr(p.ty)][:2]
            vals = [self.integer(0, self.size['arr_len'])] + [v for v in vals if not isinstance(v, list)][:2]
        self.size = dict(self.size, func_stmts=self.size['main_stmts'])
        self.gen_func('@', name='@is_you', ret=EMPTY, params=params)
        if self.size.get('argv_vla'):
            self.func_nodes[-1].body.stmts.insert(0, Assign(Var('gvl', t=INT), Var('vlen', t=INT)))
        for h in you_helpers:
            # called from the top level of @is_you (you context, outside any try) at a drawn position, so that the helper's
            # try comes before, between or after the tries of @is_you both at run time and in generation order
            ms = self.func_nodes[-1].body.stmts
            hi = len(ms) - 1 if ms and isinstance(ms[-1], Return) else len(ms)
            ms.insert(self.integer(1 if self.size.get('argv_vla') else 0, max(hi, 1 if self.size.get('argv_vla') else 0)),
                      ExprStmt(Call(h.name, [Lit('int', self.integer(-1, 5), None, t=INT)], t=EMPTY)))
        # dump of all scalar globals at the end of main for observability (in its own
        # function so that locals shadowing globals cannot interfere)
        main = self.func_nodes[-1]
        tail = []
        for g in self.globals:
            if not is_arr(g.ty):
                e = Var(g.name, t=g.ty)
                if g.ty == BYTE:
                    e = Is(e, INT, t=INT)
                tail.append(ExprStmt(Call('writeln', [e], t=EMPTY)))
        if tail:
            self.func_nodes.insert(len(self.func_nodes) - 1, Func(EMPTY, 'dumpg', [], Block(tail)))
            call = ExprStmt(Call('dumpg', [], t=EMPTY))
            if main.body.stmts and isinstance(main.body.stmts[-1], Return):
                main.body.stmts.insert(len(main.body.stmts) - 1, call)
            else:
                main.body.stmts.append(call)
        # declaration order is free (all signatures are registered up front) except among overloads of one
        # name, where it decides the fallback; shuffling puts call sites between and inside overload sets
        if self.chance(60):
            order = self.draw(st.permutations(list(range(len(self.func_nodes)))))
            self.func_nodes = [self.func_nodes[i] for i in order]
        return Program(globs, self.func_nodes), vals


DEFAULT_SIZE = dict(expr_depth=3, arr_len=5, loop_iters=4, loop_nest=2, func_stmts=6, main_stmts=10,
                    funcs=4, globals=4, rec_depth=3, max_preempts=3)


@st.composite
def programs(draw, features=SEQ_FEATURES, ws=None, size=None):
    """-> (Program, argv values, ws)"""
    if ws is None:
        ws = draw(st.sampled_from([2, 2, 2, 2, 3, 3, 4, 4, 8, 8, 5, 6]))
    sz = dict(DEFAULT_SIZE)
    if size:
        sz.update(size)
    b = Builder(draw, frozenset(features), ws, sz)
    prog, vals = b.program()
    return prog, vals, ws


def argv_strings(vals):
    """Python argv values -> flat list of VM argument strings/bytes."""
    out = []
    for v in vals:
        if isinstance(v, list):
            out += [x if isinstance(x, bytes) else str(x) for x in v]
        elif isinstance(v, bytes):
            out.append(v)
        else:
            out.append(str(v))
    return out
