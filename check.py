#!/venv/bin/python
"""./check.py <ID> [--tier quick|thorough] [--replay FILE]"""
import os
import sys

HERE = os.path.dirname(os.path.abspath(__file__))
sys.path.insert(0, HERE)
if os.environ.get('PYTHONHASHSEED') != '0':
    # a run must be a pure function of the code under test and VERIF_SEED: fix the string hash seed
    os.environ['PYTHONHASHSEED'] = '0'
    os.execv(sys.executable, [sys.executable] + sys.argv)
if os.path.isdir(os.path.join(HERE, '.deps')):
    sys.path.append(os.path.join(HERE, '.deps'))


def main():
    if len(sys.argv) < 2:
        print(__doc__)
        return 2
    pid = sys.argv[1]
    try:
        mod = __import__('props.' + pid, fromlist=['x'])
    except ImportError:
        import traceback
        traceback.print_exc()
        print('HARNESS ERROR: cannot import check for', pid)
        return 2
    from harness.runner import main as run
    return run(mod, sys.argv[2:])


if __name__ == '__main__':
    sys.exit(main())
