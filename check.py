#!/venv/bin/python
"""./check.py <ID> [--tier quick|thorough] [--replay FILE]"""
import os
import sys

HERE = os.path.dirname(os.path.abspath(__file__))
sys.path.insert(0, HERE)
os.environ.setdefault('PYTHONHASHSEED', '0')
if os.path.isdir(os.path.join(HERE, '.deps')):
    sys.path.append(os.path.join(HERE, '.deps'))


def main():
    if len(sys.argv) < 2:
        print(__doc__)
        return 2
    pid = sys.argv[1]
    try:
        mod = __import__('props.' + pid, fromlist=['x'])
    except ImportError:
        import traceback
        traceback.print_exc()
        print('HARNESS ERROR: cannot import check for', pid)
        return 2
    from harness.runner import main as run
    return run(mod, sys.argv[2:])


if __name__ == '__main__':
    sys.exit(main())
