#!/bin/sh
# Offline setup: make sure hypothesis is importable by /venv/bin/python, then
# validate the oracles themselves (selftest).  Everything from files on disk.
set -e
cd "$(dirname "$0")"
/venv/bin/python -c 'import hypothesis' 2>/dev/null || \
  /venv/bin/pip install --no-index --find-links /opt/veriftools/wheels hypothesis >/dev/null
/venv/bin/python -c 'import hypothesis; print("hypothesis", hypothesis.__version__)'
/venv/bin/python selftest/run.py
