#!/bin/sh
# Offline setup: make sure hypothesis is importable by /venv/bin/python, then
# validate the oracles themselves (selftest).  Everything from files on disk.
set -e
cd "$(dirname "$0")"
/venv/bin/python -c 'import hypothesis' 2>/dev/null || \
  /venv/bin/pip install --no-index --find-links /opt/veriftools/wheels hypothesis >/dev/null
/venv/bin/python -c 'import hypothesis; print("hypothesis", hypothesis.__version__)'
# atheris is only used by the thorough tier of C10/C12; its absence is tolerated (campaigns are then skipped and counted)
/venv/bin/python -c 'import sys; sys.path.append(".deps"); import atheris' 2>/dev/null || \
  /venv/bin/pip install --no-index --find-links /opt/veriftools/wheels --target .deps atheris >/dev/null 2>&1 || echo 'atheris not installable (thorough-tier campaigns will be skipped)'
/venv/bin/python selftest/run.py
